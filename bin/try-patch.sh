#!/bin/bash
# try-patch.sh <patch.diff> <Cxx>... : applies the patch to a scratch copy of /repo/{lib,include,util}
# (outside /repo and /verif), runs the named quick checks against it and reports caught / missed.
P=$1; shift
S=$(mktemp -d /tmp/lesim-try.XXXXXX)
trap 'rm -rf "$S"' EXIT
if [ -n "${BASE:-}" ]; then git -C /repo archive "$BASE" lib include util | tar -x -C "$S"; else for d in lib include util; do cp -r /repo/$d "$S/"; done; fi
(cd "$S" && patch -p1 -s < "$P") || { echo "patch does not apply"; exit 2; }
for c in "$@"; do
  out=$(REPO=$S LESIM_NO_EVIDENCE=1 /verif/bin/lesim-check $c ${TIER:-quick} ${RUNS:+--runs $RUNS} 2>&1)
  rc=$?
  if [ $rc -eq 1 ]; then echo "$c: CAUGHT"; echo "$out" | grep -A1 "^VIOLATION" | head -6
  elif [ $rc -eq 0 ]; then echo "$c: missed"
  else echo "$c: harness problem rc=$rc"; echo "$out" | tail -5; fi
done
