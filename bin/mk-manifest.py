#!/usr/bin/python3
# Regenerates /verif/MANIFEST.json from the table below (kept in one place so that the
# manifest stays consistent with what the checks really do).
import json
import os
import subprocess

NA = {
    "C02": "pure function of (file bytes, delimiter set, comment set) through one call; no schedule, fault, failure point, environment structure or history to simulate (DESIGN.md 8)",
    "C03": "econf_mergeFiles is a pure function of two in-memory objects; nothing depends on scheduling, I/O, time or faults (DESIGN.md 8)",
    "C05": "metamorphic relation between parses of two byte strings; pure input property of a single call (DESIGN.md 8)",
    "C08": "exhaustive value enumeration through pure number<->text conversions; not a schedule/fault search (DESIGN.md 8)",
    "C09": "text->number/boolean conversion of one stored string; pure function, no environment (DESIGN.md 8)",
    "C14": "size-parametrised pure input property; buffers are compile-time constants, nothing the simulator could vary at run time (DESIGN.md 8)",
    "C15": "effect of parse options on one file's bytes / one option string; pure (DESIGN.md 8)",
    "C17": "provenance metadata is a pure function of one file's bytes (DESIGN.md 8)",
}

TRUST = ("trusted base: the lesim executor (wrappers, ledger, scheduler), the reference models in sim/lesim/models.py, clang 14 ASan/UBSan, "
         "the kernel tmpfs; seeded sampling, not enumeration")

CHECKS = {
    "C01": ("exploration", "seeded simulation of the file-system environment (tree shape, enumeration order, d_type, short reads, heap fill, stale process-wide drop-in list) around the real library; result compared with the layered-lookup reference model M5; known finding D7 recognised by its exact signature", "6 C01",
            "deterministic simulation: seeded tree/fault search vs. layered-lookup reference model"),
    "C11": ("exploration", "seeded API histories (create/set/get/get-default/list, refusal shapes, four constructors, growth past the pre-allocated entries) executed against the real library in lock-step with an ordered-map reference model under seeded heap fill", "6 C11",
            "deterministic simulation: seeded API histories vs. ordered-map reference model"),
    "C04": ("exploration", "storage faults (truncate, bit flip, zero range, duplicated/swapped sectors, garbage splice, foreign file, CRLF, missing final newline, tearing of files the library wrote itself) applied to valid and unstructured stored files, then the complete consumer workload (all delimiter/comment sets, parsing options, every getter on every key, merges in both roles, write + read-back) under ASan+UBSan with a deterministic step budget", "6 C04",
            "deterministic simulation: seeded storage-fault injection, sanitizer + step-budget oracle"),
    "C18": ("exploration", "2-16 real caller threads on private objects under a seeded scheduler that owns every interleaving (preemption at every basic-block edge of the library and every wrapped libc call); per-thread results compared with solo runs (ASan build) and ThreadSanitizer build with hidden hand-offs as exact shared-memory detector; schedules recorded, minimised and replayed", "6 C18",
            "deterministic simulation: seeded scheduler over real threads, solo-equivalence + TSan with hidden hand-offs"),
    "C19": ("exploration", "the real econftool binary (ASan+UBSan build of the current sources) is spawned for show/syntax/cat on seeded two-layer trees and single files and compared with the in-process library on the same simulated tree", "6 C19",
            "deterministic simulation: second-party differential (real tool vs. library) on seeded trees"),
    "C06": ("fault_enumeration", "the simulator is the caller's callback: the veto is injected at every consulted file in turn (complete per generated tree) and at seeded subsets, through all four callback entry points; the recorded event history of each call (callback vs. fopen order, path sequence, data pointer) and the out-pointers are judged", "6 C06",
            "deterministic simulation: single-fault enumeration of callback vetoes, event-history oracle"),
    "C07": ("exploration", "seeded setter histories and parsed 5.1 files written through the real file layer and read back under seeded short reads and heap fill; before/after dumps compared by the equality of DESIGN.md 5.4", "6 C07",
            "deterministic simulation: seeded histories, write/read-back through the simulated file layer"),
    "C10": ("exploration", "seeded histories of read-only calls on parsed/built/merged objects; the full dump (listing, string+extended getters, tags, path, written bytes) is compared with the initial dump after every single step", "6 C10",
            "deterministic simulation: seeded query histories with a full-state invariant after every step"),
    "C12": ("exploration", "all six layered-read entry points executed on the same seeded tree in one run; pairwise differential, comparison with model M5 (D7 recognised), history members vs. independent single-file reads, fold of the history vs. merged result", "6 C12",
            "deterministic simulation: differential between entry points + reference model on seeded trees"),
    "C13": ("fault_enumeration", "one malformed line injected at every line position of a seeded 5.1 file in turn (complete per file), read alone or as any member of a tree through all eight entry points after a stale-location history; expected (code, path, line) known by construction", "6 C13",
            "deterministic simulation: single-fault enumeration of malformed lines, expectation by construction"),
    "C16": ("fault_enumeration", "exactly one consulted file made offending (owner / group / symlink) at every position in turn for every active rule, plus seeded multi-offender assignments, through all eight entry points, with setter/reset histories; restricted, reset and unrestricted reads compared", "6 C16",
            "deterministic simulation: single-fault enumeration of file attributes vs. restriction model"),
    "C20": ("fault_enumeration", "a failure of seeded kind (veto, owner, group, symlink, malformed, unreadable, vanished, read error) injected at every consulted file in turn, plus API histories, unknown options, missing files; allocation ledger (link-time wrapped allocator family + scandir/getline/asprintf results + streams), out-pointer validity, two heap fill bytes per plan, ASan", "6 C20",
            "deterministic simulation: fault enumeration with allocation-ledger conservation and fill-byte differential"),
}

PENDING = []


def main():
    checks = []
    for pid, (cat, text, ref, tech) in sorted(CHECKS.items()):
        checks.append({
            "property_id": pid,
            "quick_cmd": "/verif/bin/lesim-check %s quick" % pid,
            "thorough_cmd": "/verif/bin/lesim-check %s thorough" % pid,
            "evidence_file": "/verif/evidence/%s.json" % pid,
            "replay_cmd_template": "/verif/bin/lesim-check replay {path}",
            "engine": "lesim",
            "level_claimed": {"category": cat, "text": text, "design_ref": "DESIGN.md " + ref},
            "level_note": TRUST,
            "technique": tech,
        })
    na = [{"property_id": k, "reason": v} for k, v in sorted(NA.items())]
    for p in PENDING:
        if p not in CHECKS:
            na.append({"property_id": p, "reason": "check under construction in this round (simulator being extended); will be claimed once its check exists"})
    try:
        commits = subprocess.check_output(["git", "-C", "/repo", "log", "--format=%H %s", "a35662a..HEAD"], text=True).strip().splitlines()
    except Exception:
        commits = []
    hook_commits = [c.split()[0] for c in commits if not c.split(" ", 1)[1].startswith("fix:")]
    m = {
        "version": 1,
        "setup_cmd": "/verif/bin/lesim-check setup",
        "hooks": {
            "guard": "OPENSUSE_LIBECONF_VERIF",
            "enable": "no source hook is needed: the unmodified sources under /repo/lib and /repo/util are compiled with clang sanitizers and -fsanitize-coverage=trace-pc-guard and linked with GNU ld --wrap interposers (file layer, allocator); the guard name is reserved for future hooks",
            "baseline_off_cmd": "/verif/bin/baseline.sh",
            "source_commits": hook_commits,
            "add_only": True,
        },
        "engines": [{"name": "lesim", "path": "/verif/sim", "serves_properties": sorted(CHECKS), "kind_free_text": "deterministic simulation with fault injection: C++ executor around the real library objects + Python seeded generators, reference models, shrinker"}],
        "checks": checks,
        "not_applicable": na,
        "notes": "deterministic simulation with fault injection; see DESIGN.md. Exit codes: 0 held (KNOWN-FINDING lines possible), 1 VIOLATION, 2 harness failure.",
    }
    with open("/verif/MANIFEST.json", "w") as f:
        json.dump(m, f, indent=1)


main()
