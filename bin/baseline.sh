#!/bin/bash
# Builds the repository with the verification guard OFF (plain upstream build:
# no -DOPENSUSE_LIBECONF_VERIF, no wrappers, no sanitizers) in a scratch copy
# outside /repo and /verif and runs the pinned CMake/ctest suite (48 tests).
# The scratch copy is needed because the shell tests locate their data via
# $PWD/../../tests, i.e. they expect the build directory one level below the
# source root, and some tests write into the source tree.
set -u
REPO=${REPO:-/repo}
S=$(mktemp -d /tmp/lebase.XXXXXX)
trap 'rm -rf "$S"' EXIT
mkdir -p "$S/repo"
rsync -a --exclude _build --exclude .git "$REPO"/ "$S/repo"/
cd "$S/repo" || exit 2
cmake -G Ninja -S . -B _build >"$S/cmake.log" 2>&1 || { cat "$S/cmake.log"; exit 2; }
cmake --build _build >"$S/build.log" 2>&1 || { tail -50 "$S/build.log"; exit 2; }
# test executables are EXCLUDE_FROM_ALL; the 'check' target builds them and runs ctest
cmake --build _build --target check >"$S/check.log" 2>&1
rc=$?
ctest --test-dir _build -j8 --timeout 900 2>&1 | tail -60
rc2=${PIPESTATUS[0]}
[ $rc -ne 0 ] && tail -30 "$S/check.log"
exit $rc2
