// Interface between the uninstrumented scheduler/coverage unit (sched.cc)
// and the executor (lesim.cc).
#pragma once
#include <stdint.h>
#include <stddef.h>

extern "C" {

// ---- step budget / edge coverage (single- and multi-task) -----------------
extern volatile uint64_t sim_steps;        // edge callbacks since last reset
extern uint64_t sim_step_budget;           // abort the run when exceeded
extern uint32_t sim_nguards;               // number of instrumented edges
extern unsigned char *sim_cov;             // sim_cov[g] != 0  <=> edge g was hit (cumulative per process)
extern const uintptr_t *sim_pcs_beg, *sim_pcs_end; // pc-table (pairs: pc, flags)
void sim_hang(void);                       // defined in lesim.cc: report + _exit(78)

// ---- cooperative scheduler over real threads -----------------------------
enum { SCHED_RANDOM = 0, SCHED_REPLAY = 1, SCHED_PCT = 2, SCHED_API = 3, SCHED_BURST = 4 };
struct sched_cfg {
  int mode;
  uint64_t seed;
  uint32_t p_num, p_den;     // switch probability p_num/p_den (RANDOM, BURST)
  int pct_d;                 // number of priority change points (PCT)
  uint64_t pct_len;          // estimated length in yields (PCT)
  const uint64_t *sw_y;      // REPLAY: transfer list (yield index, task)
  const int *sw_t;
  size_t nsw;
};
struct sched_stats {
  uint64_t yields, switches, sig;   // sig: hash of (from,to,edge) over all switches
  uint64_t switches_in_edge;        // switches taken at basic-block edges (inside library code)
  uint64_t switches_in_wrap;        // switches taken at wrapped libc calls / API boundaries
};
void sched_begin(int ntasks, const struct sched_cfg *cfg);   // before threads are created
void sched_task_enter(int task);     // first thing a task thread does: wait for the baton
void sched_task_exit(int task);      // last thing a task thread does: pass the baton on
void sched_run(void);                // main thread: hand out the first baton, wait until all tasks are done
void sched_end(struct sched_stats *st, uint64_t **tr_y, int **tr_t, size_t *ntr); // transfer list recorded
void sim_yield(int kind);            // explicit yield point (wrappers: kind 1, API boundary: kind 2)
int  sched_current(void);            // task id of the calling thread, -1 outside tasks
extern int sched_active;             // 1 while a multi-task run is in progress
}
