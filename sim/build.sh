#!/bin/bash
# build.sh <flavour> <outdir>   (flavour: asan | tsan | plain)
# Builds the library objects from $REPO (default /repo) and links them with the
# cached harness objects into <outdir>/lesim-<flavour>; for asan also <outdir>/econftool.
set -eu
FL=$1; OUT=$2
REPO=${REPO:-/repo}
SIM=$(cd "$(dirname "$0")" && pwd)
HC=${LESIM_CACHE:-$(dirname "$SIM")/build/harness}
mkdir -p "$OUT" "$HC"
WRAPS="malloc calloc realloc free strdup strndup asprintf vasprintf getline getdelim __getdelim lstat stat fopen fclose scandir realpath"
WRAPFLAGS=""; for w in $WRAPS; do WRAPFLAGS="$WRAPFLAGS -Wl,--wrap=$w"; done
COMMON="-g -fno-omit-frame-pointer -D_GNU_SOURCE -D_REENTRANT=1 -I$REPO/include -I$REPO/lib"
case $FL in
  asan)  LIBF="-O1 -fsanitize=address,undefined -fno-sanitize-recover=undefined -fsanitize-coverage=trace-pc-guard,pc-table"; HF="-O1 -fsanitize=address -DLESIM_ASAN"; LF="-fsanitize=address,undefined"; CC=clang; CXX=clang++;;
  tsan)  LIBF="-O1 -fsanitize=thread -fsanitize-coverage=trace-pc-guard,pc-table"; HF="-O1 -DLESIM_TSAN"; LF="-fsanitize=thread"; CC=clang; CXX=clang++;;
  plain) LIBF="-O1 -fsanitize-coverage=trace-pc-guard,pc-table"; HF="-O1"; LF=""; CC=clang; CXX=clang++;;
  *) echo "unknown flavour $FL" >&2; exit 2;;
esac
# ---- harness objects (cached by content hash of the simulator sources + flavour)
HH=$(cat "$SIM/lesim.cc" "$SIM/sched.cc" "$SIM/sched.h" "$SIM/build.sh" | sha1sum | cut -c1-12)
HO="$HC/lesim-$FL-$HH.o"; SO="$HC/sched-$FL-$HH.o"
(
  flock 9
  if [ ! -f "$HO" ] || [ ! -f "$SO" ]; then
    # older versions of the harness objects: removed only when nothing can still be linking against them
    find "$HC" -maxdepth 1 \( -name "lesim-$FL-*.o" -o -name "sched-$FL-*.o" \) -mmin +180 -delete 2>/dev/null || true
    $CXX -std=c++17 $HF -g -fno-omit-frame-pointer -I$REPO/include -c "$SIM/lesim.cc" -o "$HO.tmp" -Wno-deprecated-declarations &
    $CXX -std=c++17 -O2 -g -c "$SIM/sched.cc" -o "$SO.tmp" &
    wait
    mv "$HO.tmp" "$HO"; mv "$SO.tmp" "$SO"
  fi
) 9>"$HC/.lock"
# ---- library objects: always rebuilt from the current working tree
pids=""
for f in "$REPO"/lib/*.c; do
  b=$(basename "$f" .c)
  $CC -std=gnu11 $COMMON $LIBF -c "$f" -o "$OUT/$FL-$b.o" -w &
  pids="$pids $!"
done
for p in $pids; do wait $p; done
$CXX -no-pie $LF $WRAPFLAGS "$HO" "$SO" "$OUT"/$FL-*.o -o "$OUT/lesim-$FL" -lpthread
if [ "$FL" = asan ]; then
  # the real tool: same sources, ASan+UBSan, no wrappers, no coverage callbacks needed
  pids=""
  for f in "$REPO"/lib/*.c; do
    b=$(basename "$f" .c)
    $CC -std=gnu11 $COMMON -O1 -fsanitize=address,undefined -fno-sanitize-recover=undefined -c "$f" -o "$OUT/tool-$b.o" -w &
    pids="$pids $!"
  done
  $CC -std=gnu11 $COMMON -O1 -fsanitize=address,undefined -fno-sanitize-recover=undefined -c "$REPO/util/econftool.c" -o "$OUT/tool-main.o" -w &
  pids="$pids $!"
  for p in $pids; do wait $p; done
  $CC -fsanitize=address,undefined "$OUT"/tool-*.o -o "$OUT/econftool"
fi
