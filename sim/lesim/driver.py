# lesim driver: builds the executors from the current /repo working tree, runs seeded
# batches on worker processes, gates / shrinks / replays candidate violations, and writes
# the evidence file.
import copy
import importlib
import json
import multiprocessing as mp
import os
import shutil
import subprocess
import sys
import time

from .core import Executor, Rng, mix, result_hash, canon

VERIF = os.environ.get("LESIM_VERIF", "/verif")
REPO = os.environ.get("REPO", "/repo")
SIM = os.path.join(VERIF, "sim")
PROPS = ["C01", "C04", "C06", "C07", "C10", "C11", "C12", "C13", "C16", "C18", "C19", "C20"]


def log(*a):
    print(*a, file=sys.stderr, flush=True)


# ---------------------------------------------------------------------------
# builds
# ---------------------------------------------------------------------------
class Build:
    def __init__(self, flavours=("asan",)):
        self.dir = os.path.join(VERIF, "build", "run-%d" % os.getpid())
        self.flavours = flavours

    def __enter__(self):
        os.makedirs(self.dir, exist_ok=True)
        t0 = time.time()
        procs = []
        for fl in self.flavours:
            procs.append((fl, subprocess.Popen([os.path.join(SIM, "build.sh"), fl, self.dir], env=dict(os.environ, REPO=REPO),
                                               stdout=subprocess.PIPE, stderr=subprocess.STDOUT)))
        for fl, p in procs:
            out = p.communicate()[0].decode("latin-1")
            if p.returncode != 0:
                log(out[-4000:])
                raise SystemExit(2)
        self.build_s = time.time() - t0
        return self

    def binary(self, fl):
        return os.path.join(self.dir, "lesim-" + fl)

    def tool(self):
        return os.path.join(self.dir, "econftool")

    def __exit__(self, *a):
        shutil.rmtree(self.dir, ignore_errors=True)


def uncovered_by_function(build, cov):
    """maps the union edge bitmap to function names with llvm-symbolizer (pc-table of the ASan executor)"""
    ctx = Ctx(build, "cov", tag="cov")
    try:
        ex = ctx.executor("asan")
        tab = ex.command({"cmd": "pctable"})["pcs"]
    finally:
        ctx.close()
    p = subprocess.run(["/usr/bin/llvm-symbolizer-14", "-e", build.binary("asan"), "--functions=short", "--no-inlines"], input="\n".join(tab) + "\n",
                       capture_output=True, text=True)
    blocks = [b for b in p.stdout.split("\n\n") if b.strip()]
    funcs = [b.split("\n")[0] for b in blocks]
    if len(funcs) != len(tab):
        return None
    tot, unc = {}, {}
    bits = cov["bits"]
    for g, fn in enumerate(funcs):
        tot[fn] = tot.get(fn, 0) + 1
        if not (bits >> g) & 1:
            unc[fn] = unc.get(fn, 0) + 1
    never = sorted(f for f in tot if unc.get(f, 0) == tot[f])
    top = sorted(((n, f) for f, n in unc.items() if f not in never), reverse=True)[:12]
    return {"functions_total": len(tot), "never_entered": never, "top": {f: "%d of %d" % (n, tot[f]) for n, f in top}}


def load_prop(pid):
    return importlib.import_module("lesim.props." + pid.lower())


# ---------------------------------------------------------------------------
# one case = one seed
# ---------------------------------------------------------------------------
class Ctx:
    """what a property module needs to run its plans"""

    def __init__(self, build, wid, tag=""):
        self.build = build
        self.wid = wid
        self.ex = {}
        self.tag = tag

    def executor(self, fl="asan"):
        if fl not in self.ex:
            # fixed-length sandbox root: path lengths (and with them allocation sizes) must not depend on the worker
            import hashlib
            h = hashlib.sha1(("%d/%s/%s" % (os.getpid(), self.tag, self.wid)).encode()).hexdigest()[:10]
            root = "/dev/shm/lesim-%s-%s" % (h, fl[:4])
            env = {"TSAN_OPTIONS": "external_symbolizer_path=/usr/bin/llvm-symbolizer-14", "ASAN_SYMBOLIZER_PATH": "/usr/bin/llvm-symbolizer-14",
                   "LOCPATH": os.path.join(SIM, "locale")}
            real = fl
            if fl == "asq0":
                # the ASan build without quarantine: freed blocks are handed out again at once, so that defects which need
                # an ADDRESS to come back (stale caches keyed by pointer) can happen; freed-and-not-yet-reused memory stays poisoned
                real = "asan"
                env["ASAN_OPTIONS"] = "quarantine_size_mb=0:thread_local_quarantine_size_kb=0"
            self.ex[fl] = Executor(self.build.binary(real), root, env=env)
        return self.ex[fl]

    def close(self):
        for e in self.ex.values():
            e.close()
            shutil.rmtree(e.root, ignore_errors=True)
        self.ex = {}


def run_case(mod, ctx, world):
    if getattr(ctx, "fresh_each", False):
        # history-dependent candidates: every execution (also every shrink attempt) starts in a new executor process
        for fl in list(ctx.ex):
            ctx.ex.pop(fl).close()
    plans = mod.build_plans(world)
    for k, p in enumerate(plans):
        p.setdefault("id", "p%d" % k)
    if hasattr(mod, "run_case"):
        results = mod.run_case(ctx, world, plans)
    else:
        ex = ctx.executor("asq0" if world.get("cfg", {}).get("quarantine0") else "asan")
        results = [ex.run(p) for p in plans]
    verdict = mod.check(world, plans, results)
    return plans, results, verdict


def case_world(mod, seed_base, i, tier):
    seed = mix(seed_base, mod.ID, i)
    rng = Rng(seed)
    world = mod.gen_world(rng, i, tier)
    world["_seed"] = seed
    world["_index"] = i
    return world


# ---------------------------------------------------------------------------
# worker
# ---------------------------------------------------------------------------
_W = {}


def _winit(pid, build_dir, flavours):
    b = Build.__new__(Build)
    b.dir = build_dir
    b.flavours = flavours
    _W["mod"] = load_prop(pid)
    _W["ctx"] = Ctx(b, "w%d" % os.getpid())
    import atexit
    atexit.register(lambda: _W["ctx"].close())


def _wchunk(args):
    seed_base, start, count, tier, deadline = args
    mod = _W["mod"]
    ctx = _W["ctx"]
    st = {"evaluations": 0, "plans": 0, "sigs": {}, "nontrivial_sigs": {}, "probes": {}, "fired": {}, "events": 0, "steps": 0,
          "candidates": [], "known": {}, "obs": {}, "samples": [], "hashes": {}, "classes": {}, "sched": {"yields": 0, "switches": 0, "sigs": {}, "in_edge": 0, "in_wrap": 0}}
    for i in range(start, start + count):
        if deadline and time.time() > deadline:
            break
        world = case_world(mod, seed_base, i, tier)
        plans, results, v = run_case(mod, ctx, world)
        st["evaluations"] += 1
        st["plans"] += len(plans)
        for r in results:
            if not isinstance(r, dict):
                continue
            for k, n in r.get("fired", {}).items():
                st["fired"][k] = st["fired"].get(k, 0) + n
            st["events"] += r.get("n_events", 0)
            st["steps"] += r.get("steps", 0) or 0
            sc = r.get("sched")
            if sc:
                st["sched"]["yields"] += sc["yields"]
                st["sched"]["switches"] += sc["switches"]
                st["sched"]["in_edge"] += sc["in_edge"]
                st["sched"]["in_wrap"] += sc["in_wrap"]
                st["sched"]["sigs"][sc["sig"]] = 1
        for k, n in v.probes.items():
            st["probes"][k] = st["probes"].get(k, 0) + n
        for k, n in v.obs.items():
            st["obs"][k] = st["obs"].get(k, 0) + n
        if v.sig is not None:
            st["sigs"][v.sig] = 1
            if v.nontrivial:
                st["nontrivial_sigs"][v.sig] = 1
        st["hashes"][i] = result_hash(results)
        for k in v.known:
            e = st["known"].setdefault(k["id"], {"count": 0, "msg": k["msg"], "index": i})
            e["count"] += 1
        if v.violations:
            cls = v.classes()[0]
            st["classes"][cls] = st["classes"].get(cls, 0) + 1
            if sum(1 for c in st["candidates"] if c["class"] == cls) < 2 and len(st["candidates"]) < 8:
                st["candidates"].append({"index": i, "class": cls, "world": world, "violations": v.violations[:5], "hash": st["hashes"][i]})
        if len(st["samples"]) < 2 and (v.nontrivial or i == start):
            st["samples"].append({"index": i, "seed": world["_seed"], "world": sample_view(world), "plans": len(plans),
                                  "verdict": "ok" if v.ok else v.classes(), "known": [k["id"] for k in v.known]})
    try:
        ex = ctx.ex.get("asan")
        if ex is not None and ex.p is not None and ex.p.poll() is None:
            cov = ex.command({"cmd": "coverage"})
            if cov:
                st["cov"] = {"total": cov["edges_total"], "bitmap": cov["bitmap"]}
    except Exception:
        pass
    return st


def sample_view(world):
    w = copy.deepcopy(world)
    s = canon(w)
    if len(s) > 6000:
        return {"truncated": s[:6000]}
    return w


def merge_stats(total, st):
    for k in ("evaluations", "plans", "events", "steps"):
        total[k] = total.get(k, 0) + st[k]
    for k in ("sigs", "nontrivial_sigs", "hashes"):
        total.setdefault(k, {}).update(st[k])
    for k in ("probes", "fired", "obs", "classes"):
        d = total.setdefault(k, {})
        for a, n in st[k].items():
            d[a] = d.get(a, 0) + n
    sc = total.setdefault("sched", {"yields": 0, "switches": 0, "sigs": {}, "in_edge": 0, "in_wrap": 0})
    for a in ("yields", "switches", "in_edge", "in_wrap"):
        sc[a] += st["sched"][a]
    sc["sigs"].update(st["sched"]["sigs"])
    kn = total.setdefault("known", {})
    for a, e in st["known"].items():
        if a in kn:
            kn[a]["count"] += e["count"]
            kn[a]["index"] = min(kn[a]["index"], e["index"])
        else:
            kn[a] = dict(e)
    if st.get("cov"):
        c = total.setdefault("cov", {"total": st["cov"]["total"], "bits": 0})
        c["bits"] |= int(st["cov"]["bitmap"][::-1], 16) if st["cov"]["bitmap"] else 0
    total.setdefault("candidates", []).extend(st["candidates"])
    if len(total.setdefault("samples", [])) < 4:
        total["samples"].extend(st["samples"][:4 - len(total["samples"])])


def run_batch(pid, build, seed_base, n, tier, workers, wall_cap=None, chunk=None):
    mod = load_prop(pid)
    flavours = getattr(mod, "FLAVOURS", ("asan",))
    chunk = chunk or max(1, min(200, n // (workers * 4) or 1))
    deadline = time.time() + wall_cap if wall_cap else None
    tasks = [(seed_base, s, min(chunk, n - s), tier, deadline) for s in range(0, n, chunk)]
    total = {}
    ctx = mp.get_context("fork")
    with ctx.Pool(workers, initializer=_winit, initargs=(pid, build.dir, flavours)) as pool:
        for st in pool.imap_unordered(_wchunk, tasks):
            merge_stats(total, st)
        pool.close()
        pool.join()
    return total


# ---------------------------------------------------------------------------
# shrinking
# ---------------------------------------------------------------------------
def get_path(obj, path):
    for k in path:
        obj = obj[k]
    return obj


def violates(mod, ctx, world, cls):
    try:
        plans, results, v = run_case(mod, ctx, world)
    except Exception:
        return False
    return cls in v.classes()


def shrink(mod, ctx, world, cls, budget=400):
    """greedy delta debugging over the lists the property module declares shrinkable,
    then over the I/O fault configuration; keeps the violation class `cls`."""
    attempts = 0
    cur = copy.deepcopy(world)
    progress = True
    if "hang:watchdog" in cls:
        budget = 0          # every attempt would wait for the watchdog again: reported unshrunk
    while progress and attempts < budget:
        progress = False
        lists = mod.shrink_lists(cur) if hasattr(mod, "shrink_lists") else []
        for path in lists:
            try:
                lst = get_path(cur, path)
            except (KeyError, IndexError, TypeError):
                continue
            if not isinstance(lst, list):
                continue
            n = len(lst)
            size = max(1, n // 2)
            while size >= 1 and attempts < budget:
                i = 0
                while i < len(lst) and attempts < budget:
                    cand = copy.deepcopy(cur)
                    cl = get_path(cand, path)
                    del cl[i:i + size]
                    if hasattr(mod, "repair"):
                        mod.repair(cand)
                    attempts += 1
                    if violates(mod, ctx, cand, cls):
                        cur = cand
                        lst = get_path(cur, path)
                        progress = True
                    else:
                        i += size
                if size == 1:
                    break
                size //= 2
        # simplify the fault configuration
        cfg = cur.get("cfg", {})
        for k, off in (("shuffle", False), ("dtype_unknown", False), ("short_reads", 0), ("fill", -1), ("locale", "C"), ("errno_noise", False), ("fd0_free", False)):
            if cfg.get(k, off) != off and attempts < budget:
                cand = copy.deepcopy(cur)
                cand["cfg"][k] = off
                attempts += 1
                if violates(mod, ctx, cand, cls):
                    cur = cand
                    progress = True
        if hasattr(mod, "simplify"):
            for cand in mod.simplify(cur):
                if attempts >= budget:
                    break
                attempts += 1
                if violates(mod, ctx, cand, cls):
                    cur = cand
                    progress = True
                    break
    return cur, attempts


# ---------------------------------------------------------------------------
# known findings
# ---------------------------------------------------------------------------
def load_known():
    p = os.path.join(VERIF, "known-findings.json")
    try:
        with open(p) as f:
            return json.load(f)
    except OSError:
        return {"open": [], "fixed": []}


# ---------------------------------------------------------------------------
# check / replay entry points
# ---------------------------------------------------------------------------
TIERS = {
    # property: (quick runs, thorough runs)
    "default": (4000, 200000),
}


def budget(mod, tier):
    q, t = getattr(mod, "RUNS", TIERS["default"])
    return q if tier == "quick" else t


def write_evidence(pid, ev):
    if os.environ.get("LESIM_NO_EVIDENCE"):
        return
    os.makedirs(os.path.join(VERIF, "evidence"), exist_ok=True)
    p = os.path.join(VERIF, "evidence", pid + ".json")
    tmp = p + ".tmp%d" % os.getpid()
    with open(tmp, "w") as f:
        json.dump(ev, f, indent=1, sort_keys=True)
    os.replace(tmp, p)


def replay_path(pid, seed, i, cls):
    os.makedirs(os.path.join(VERIF, "replays"), exist_ok=True)
    safe = "".join(c if c.isalnum() else "_" for c in cls)[:40]
    return os.path.join(VERIF, "replays", "%s-%d-%d-%s.json" % (pid, seed, i, safe))


def gate_candidates(mod, build, cands, seed_base, tier):
    """Every candidate violation is (1) re-executed in a fresh executor: verdict class and
    result hash must match, otherwise the harness is nondeterministic (exit 2);
    (2) minimised; (3) written as replay file and replayed in a fresh process."""
    confirmed = []
    nondet = []
    seen_cls = set()
    for c in sorted(cands, key=lambda c: c["index"]):
        if c["class"] in seen_cls:
            continue
        ctx = Ctx(build, "g%d" % c["index"], tag="gate")
        try:
            plans, results, v = run_case(mod, ctx, c["world"])
            h = result_hash(results)
            if c["class"] in v.classes() and h != c["hash"]:
                # the same violation class in a fresh process, but another result: the batch executor had run other plans
                # before this one.  Either the harness is nondeterministic, or the LIBRARY carries state from call to call
                # (which is what the defect may be about).  Decide by executing in a second fresh process: two fresh
                # executions must agree exactly.
                ctx2 = Ctx(build, "h%d" % c["index"], tag="gate")
                try:
                    plans2, results2, v2 = run_case(mod, ctx2, c["world"])
                    h2 = result_hash(results2)
                finally:
                    ctx2.close()
                if h2 == h and c["class"] in v2.classes():
                    c = dict(c, hash=h, history_dependent=True)
                    ctx.fresh_each = True
            if c["class"] not in v.classes() or h != c["hash"]:
                nondet.append({"index": c["index"], "class": c["class"], "rerun_classes": v.classes(), "hash": [c["hash"], h]})
                continue
            seen_cls.add(c["class"])
            if hasattr(mod, "pre_shrink"):
                c["world"] = mod.pre_shrink(ctx, c["world"], plans, results, c["class"])
            # Minimise, write the replay file, replay it in a fresh process.  When the minimised world does not replay,
            # the shrink was contaminated by what earlier attempts left behind in its executor process (a defect that
            # leaks descriptors or keeps process-wide state makes a run depend on the runs before it): the shrink is
            # then repeated from the confirmed world with a new executor process for every execution.
            ok = False
            for fresh in ([True] if getattr(ctx, "fresh_each", False) else [False, True]):
                ctx.fresh_each = fresh
                small, attempts = shrink(mod, ctx, c["world"], c["class"], budget=150 if tier == "quick" else 600)
                plans, results, v = run_case(mod, ctx, small)
                path = replay_path(mod.ID, seed_base, c["index"], c["class"])
                rep = {"property": mod.ID, "seed_base": seed_base, "index": c["index"], "seed": c["world"].get("_seed"), "class": c["class"],
                       "violations": v.violations[:8], "shrink_attempts": attempts, "world": small, "original_world": c["world"], "plans": plans,
                       "result_hash": result_hash(results)}
                with open(path, "w") as f:
                    json.dump(rep, f, indent=1, sort_keys=True)
                # fresh-process replay
                p = subprocess.run([sys.executable, "-m", "lesim", "replay", path, "--build-dir", build.dir], cwd=SIM, capture_output=True, text=True,
                                   env=dict(os.environ, PYTHONPATH=SIM, REPO=REPO))
                if p.returncode == 1 and ("class=" + c["class"]) in p.stdout:
                    ok = True
                    break
            if ok:
                confirmed.append({"class": c["class"], "path": path, "index": c["index"], "violations": v.violations[:3]})
            else:
                nondet.append({"index": c["index"], "class": c["class"], "replay_rc": p.returncode, "replay_out": p.stdout[-500:] + p.stderr[-500:]})
        finally:
            ctx.close()
    return confirmed, nondet


def check_main(pid, tier, seed_base, workers=None, runs=None, wall_cap=None):
    mod = load_prop(pid)
    t0 = time.time()
    workers = workers or (8 if tier == "quick" else 16)
    n = runs or budget(mod, tier)
    flavours = getattr(mod, "FLAVOURS", ("asan",))
    with Build(flavours) as build:
        total = run_batch(pid, build, seed_base, n, tier, workers, wall_cap=wall_cap)
        extra = {}
        if hasattr(mod, "extra_phase"):
            extra = mod.extra_phase(build, seed_base, tier, workers) or {}
        confirmed, nondet = gate_candidates(mod, build, total.get("candidates", []) + extra.get("candidates", []), seed_base, tier)
        uncovered = None
        try:
            if total.get("cov"):
                uncovered = uncovered_by_function(build, total["cov"])
        except Exception as e:
            log("coverage symbolisation failed: %r" % e)
    wall = time.time() - t0
    known = load_known()
    open_ids = {k["id"]: k for k in known.get("open", []) if k.get("property") == pid or pid in k.get("properties", [])}
    rc = 0
    for kid, e in sorted(total.get("known", {}).items()):
        if kid in open_ids:
            print("KNOWN-FINDING: property=%s %s (%s; seen %d times, first at run %d)" % (pid, kid, open_ids[kid]["what"], e["count"], e["index"]))
        else:
            # a recognised pattern that the committed file does not list is an ordinary violation
            confirmed.append({"class": "unlisted-known:" + kid, "path": "", "index": e["index"], "violations": [{"oracle": kid, "msg": e["msg"]}]})
    for c in confirmed:
        print("VIOLATION property=%s replay=%s" % (pid, c["path"]))
        print("  class=%s run=%d %s" % (c["class"], c["index"], c["violations"][0]["msg"][:300] if c["violations"] else ""))
        rc = 1
    if nondet:
        log("HARNESS-NONDETERMINISM: %s" % json.dumps(nondet)[:2000])
        if rc == 0:
            rc = 2
    ev = {
        "property_id": pid, "tier": tier, "seed": seed_base, "level": mod.LEVEL, "wall_s": round(wall, 2), "violations": len(confirmed),
        "coverage": {
            "evaluations": total.get("evaluations", 0),
            "distinct_nontrivial": len(total.get("nontrivial_sigs", {})),
            "distinct_state_signatures": len(total.get("sigs", {})),
            "rule": mod.RULE,
            "samples": total.get("samples", [])[:3],
            "plans_executed": total.get("plans", 0),
            "runs_per_hour": int(total.get("evaluations", 0) / max(wall, 1e-9) * 3600),
            "seed_first_last_index": [0, n - 1],
            "events_total": total.get("events", 0),
            "library_basic_block_edges_executed": total.get("steps", 0),
            "simulated_time": "not applicable: libeconf has no clock or timer; progress is counted in intercepted events and basic-block edges",
            "faults_fired": total.get("fired", {}),
            "probes": total.get("probes", {}),
            "observations": total.get("obs", {}),
            "violation_classes_seen": total.get("classes", {}),
            "known_findings_seen": {k: e["count"] for k, e in total.get("known", {}).items()},
            "components": getattr(mod, "COMPONENTS", DEFAULT_COMPONENTS),
            "workers": workers, "build_s": round(getattr(build, "build_s", 0), 2),
        },
        "assumptions": getattr(mod, "ASSUMPTIONS", DEFAULT_ASSUMPTIONS),
    }
    if total.get("sched", {}).get("yields"):
        sc = total["sched"]
        ev["coverage"]["distinct_interleavings"] = len(sc["sigs"])
        ev["coverage"]["yields"] = sc["yields"]
        ev["coverage"]["switches"] = sc["switches"]
        ev["coverage"]["switches_inside_library_code"] = sc["in_edge"]
        ev["coverage"]["switches_at_libc_or_api_boundary"] = sc["in_wrap"]
    if total.get("cov"):
        ev["coverage"]["library_edges_total"] = total["cov"]["total"]
        ev["coverage"]["library_edges_covered"] = bin(total["cov"]["bits"]).count("1")
        ev["coverage"]["library_edges_note"] = "trace-pc-guard edges of /repo/lib/*.c in the ASan+UBSan build (includes sanitizer-check edges that only a failing check would take)"
    if uncovered:
        ev["coverage"]["library_functions_total"] = uncovered["functions_total"]
        ev["coverage"]["library_functions_never_entered"] = uncovered["never_entered"]
        ev["coverage"]["uncovered_edges_by_function_top"] = uncovered["top"]
    ev["coverage"].update(extra.get("coverage", {}))
    write_evidence(pid, ev)
    log("%s %s: %d runs (%d plans) in %.1fs, %d distinct non-trivial, violations=%d, known=%s" % (
        pid, tier, total.get("evaluations", 0), total.get("plans", 0), wall, len(total.get("nontrivial_sigs", {})), len(confirmed),
        {k: e["count"] for k, e in total.get("known", {}).items()}))
    return rc


DEFAULT_COMPONENTS = {
    "real": ["all of /repo/lib/*.c compiled unmodified (clang -O1, ASan+UBSan, trace-pc-guard)", "kernel tmpfs file system under /dev/shm",
             "glibc stdio/dirent/stat behind pass-through wrappers", "ASan allocator"],
    "stub": ["scandir result order (seeded shuffle, then the comparator the library passed)", "d_type (optionally DT_UNKNOWN)",
             "read(2) chunking via fopencookie (seeded short reads)", "fresh heap bytes (seeded fill byte)", "the caller's callback"],
}
DEFAULT_ASSUMPTIONS = [
    "sampling, not enumeration: a clean batch is evidence, not proof",
    "the library reaches the file system only through lstat/stat/fopen/fclose/getline/getdelim/scandir/realpath (faults attach there; any other libc path still works on the real tmpfs tree but cannot be faulted)",
    "allocation failure is not injected (no property covers it)",
    "locale limited to C, C.utf8 and a private locale xx_XX whose decimal point is a comma (sim/locale; no other locale is installed)",
]


def replay_main(path, build_dir=None):
    with open(path) as f:
        rep = json.load(f)
    mod = load_prop(rep["property"])

    def go(build):
        ctx = Ctx(build, "r%d" % os.getpid(), tag="replay")
        try:
            plans, results, v = run_case(mod, ctx, rep["world"])
        finally:
            ctx.close()
        h = result_hash(results)
        if v.violations:
            for c in v.classes():
                print("VIOLATION property=%s replay=%s class=%s" % (rep["property"], path, c))
            for x in v.violations[:5]:
                print("  %s: %s" % (x["oracle"], x["msg"][:400]))
            print("  result_hash=%s (recorded %s)" % (h, rep.get("result_hash")))
            return 1
        for k in v.known:
            print("KNOWN-FINDING: property=%s %s %s" % (rep["property"], k["id"], k["msg"]))
        print("replay of %s: property held (result_hash=%s, recorded %s)" % (path, h, rep.get("result_hash")))
        return 0

    if build_dir:
        b = Build.__new__(Build)
        b.dir = build_dir
        return go(b)
    flavours = getattr(mod, "FLAVOURS", ("asan",))
    with Build(flavours) as build:
        return go(build)
