# World generators shared by the layered-read properties (C01 C06 C12 C13 C16 C20).
# A "world" is a JSON-able description from which both the executor plan and the
# model's expectation are derived; shrinking edits the world, never the plan.
from .models import Tree, m5, norm, norm_suffix, basename, render_plain

NAME_POOL = ["10-a", "9-b", "100-c", "A", "a", "B", "_x", "~y", "0", "00", ".h", "sp ace", "\xe9t\xe9", "a.b", "-dash", "%s%n", "50%d"]
KEYS = ["x", "y", "z", "w", "X", "xy"]        # incl. a pair that differs only in case and a key that is a prefix of another
SECS = ["A", "B", "Sec 1", "a", "AB", "_oNne_"]       # the last one has the djb2 hash of the reserved placeholder text
MAIN_STATES = ["absent", "regular", "empty", "devnull"]


def io_cfg(rng, faults=True):
    cfg = {"io_seed": rng.getrandbits(48), "locale": rng.pick(["C", "C.utf8"])}
    if faults:
        cfg["shuffle"] = rng.chance(0.8)
        cfg["dtype_unknown"] = rng.chance(0.4)
        cfg["short_reads"] = rng.pick([0, 0, 1, 2, 3, 7, 64, 4096])
        cfg["fill"] = rng.pick([0xA5, 0x00, 0xFF, 0x5B, 0x20, 0x0A, 0x23])
        # errno is unspecified after a successful libc call and arbitrary when the caller enters the library
        cfg["errno_noise"] = rng.chance(0.5)
        # allocator behaviour: a third of the runs use the executor whose heap hands freed addresses out again at once
        cfg["quarantine0"] = rng.chance(0.33)
        # a daemon may run with its standard descriptors closed: the first file the library opens then gets descriptor 0
        cfg["fd0_free"] = rng.chance(0.15)
    return cfg


MANY_SECS = ["m%02d" % k for k in range(40)]


def file_entries(rng, fid, maxkeys=6, sections=True):
    if sections and rng.chance(0.03):
        # many sections: the section list grows past its allocation steps (8, 16, 32)
        ents = [[None, "x", "v%d.0" % fid]] if rng.chance(0.5) else []
        for n, s_ in enumerate(rng.subset(MANY_SECS, 7, 34)):
            ents.append([s_, rng.pick(KEYS), "v%d.%d" % (fid, n + 1)])
        return ents
    return _file_entries(rng, fid, maxkeys, sections)


def _file_entries(rng, fid, maxkeys=6, sections=True):
    """plain-profile entries with values unique per (file, key); each (section,key) once;
    group-less first, sections contiguous, every section has at least one key."""
    ents = []
    n = 0
    secs = [None] + (rng.subset(SECS, 0, 2) if sections else [])
    if rng.chance(0.2) and len(secs) > 1:
        secs = secs[1:]          # only sections
    for s in secs:
        ks = rng.subset(KEYS, 1 if s is not None else 0, 3)
        for k in ks:
            if len(ents) >= maxkeys and s is None:
                break
            n += 1
            # mostly plain ASCII; now and then a byte with the top bit set at the end or inside, or printf directives
            val = "v%d.%d" % (fid, n) + (rng.pick(["\xe9", "\xff", "\x80", "\xc3\xa9t", "%s%n", "\xa0\xa0"]) if rng.chance(0.08) else "")
            if rng.chance(0.03):
                val = "[" + val + "]"          # a value that looks like a section header
            ents.append([s, k, val])
    return ents


def layers_of(read):
    """ordered layer directories (last = highest priority) as the statement of C01 defines them"""
    if read["ep"].startswith("readDirs"):
        return [read["usr"] if read["usr"] else "", read["etc"] if read["etc"] else ""]
    o = read["opts"]
    if o.get("parsing_dirs"):
        return list(o["parsing_dirs"])
    proj = read.get("project")
    sub = read.get("usr_subdir") or ""
    if not read.get("name"):
        proj = None      # drop-ins only: the project takes the place of the name, layers have no project part
    if o.get("root_prefix"):
        root = read.get("root", "$ROOT")
        if proj is not None:
            return [norm("%s/%s/%s" % (root, sub, proj)), norm("%s/run/%s" % (root, proj)), norm("%s/etc/%s" % (root, proj))]
        return [norm(root + sub), norm(root + "/run"), norm(root + "/etc")]
    # no root prefix: the vendor directory is taken as given, /run and /etc are the real ones
    if proj is not None:
        return [norm("%s/%s" % (sub, proj)), norm("/run/%s" % proj), norm("/etc/%s" % proj)]
    return [norm(sub), "/run", "/etc"]


def name_of(read):
    if read["ep"].startswith("readDirs"):
        return read.get("name")
    return read.get("name") or read.get("project")


def postfixes_of(read):
    if not read["ep"].startswith("readDirs"):
        if not read.get("name"):
            return [".d"]
        if read["opts"].get("config_dirs"):
            return list(read["opts"]["config_dirs"])
    if read.get("global_dirs"):
        return list(read["global_dirs"])
    return None


def rel(read, p):
    """spelling of a sandbox path handed to the library: through the directory link of a dotdot world, and
    relative to the working directory $ROOT when the world asks for relative names"""
    if p is None:
        return p
    if read.get("dotdot"):
        # the caller reaches the tree through a symbolic link to a directory and "..": $ROOT/cur -> $ROOT/rel/v2
        if p == "$ROOT/rel":
            p = "$ROOT/cur/.."
        elif p.startswith("$ROOT/rel/"):
            p = "$ROOT/cur/../" + p[len("$ROOT/rel/"):]
    if read.get("rel") and p.startswith("$ROOT/"):
        return read.get("rel_dot", "") + p[len("$ROOT/"):]
    return p


def apply_dotdot(world):
    """moves the whole tree below $ROOT/rel and lets the caller spell every directory as $ROOT/cur/../<dir>,
    where cur is a symbolic link to the directory rel/v2: only the kernel knows where such a name leads.
    The original locations keep decoy files with other values."""
    import copy
    import json
    decoys = copy.deepcopy(world["nodes"])
    for n in decoys:
        for e in n.get("entries", []):
            if e[2] is not None:
                e[2] = "decoy-" + e[2]
    w = json.loads(json.dumps(world).replace("$ROOT", "$ROOT/rel"))
    w["read"].setdefault("root", "$ROOT/rel")
    w["read"]["dotdot"] = True
    if w["read"].get("rel"):
        w["cfg"]["cwd"] = "$ROOT"        # relative names start at the sandbox root: cur/../<dir>
    w["nodes"] += decoys + [{"p": "$ROOT/rel/v2", "t": "d"}, {"p": "$ROOT/cur", "t": "l", "to": "$ROOT/rel/v2"}]
    return w


def enum_positions(n, seed, cap=24):
    """positions of a consulted list at which a single fault is injected: all of them, or - for the rare trees with
    hundreds of files - the first two, the last two and a seeded sample (complete enumeration stays the rule)"""
    if n <= cap:
        return list(range(n))
    from .core import Rng
    r = Rng(seed)
    return sorted(set([0, 1, n - 2, n - 1] + r.sample(range(n), cap - 4)))


def single_file_world(rng, w):
    """turns a layered world into a single-file world (econf_readFile*): one file, seeded name and spelling
    (absolute, relative below a directory, a bare name of the working directory, './name'; with and
    without a dot in the name)"""
    base = rng.pick(["one.conf", "one.conf", "shells", "a.b.c"])
    path = rng.pick(["$ROOT/single/", "$ROOT/single/", "$ROOT/"]) + base
    read = {"ep": "readFile", "path": path, "delim": "=", "comment": "#", "opts": {}}
    w["cfg"] = dict(w["cfg"])
    w["cfg"].pop("cwd", None)
    if rng.chance(0.4):
        read["rel"] = True
        w["cfg"]["cwd"] = "$ROOT"
        if rng.chance(0.3):
            read["rel_dot"] = "./"
    read["satisfied"] = satisfied_security(rng)
    w["read"] = read
    w["nodes"] = [{"p": path, "t": "f", "entries": file_entries(rng, 1)}]
    return w


def satisfied_security(rng, p=0.25):
    """security ops for restrictions that EVERY file and directory of a generated tree satisfies (the executor
    creates them as uid 0 / gid 0, files 0644, directories 0755, links allowed): they must not change anything"""
    if not rng.chance(p):
        return []
    cand = [{"op": "security", "what": "owner", "v": 0}, {"op": "security", "what": "group", "v": 0},
            {"op": "security", "what": "symlinks", "v": True},
            {"op": "security", "what": "perms", "file": rng.pick([0o400, 0o444, 0o644]), "dir": rng.pick([0o500, 0o111, 0o755])}]
    ops = rng.subset(cand, 1, 4)
    if rng.chance(0.2):
        ops = [{"op": "security", "what": "owner", "v": 4711}, {"op": "security", "what": "reset"}] + ops
    return ops


def dirarg(read, p):
    """spelling of a DIRECTORY argument: as rel(), optionally with a trailing slash"""
    q = rel(read, p)
    if q and read.get("slash") and not q.endswith("/"):
        q += "/"
    return q


def noisy(content, seed, cchars, trail=True):
    """inert noise for a plain-profile file: comment lines at column 0, blank lines, trailing comments"""
    from .core import Rng
    r = Rng(seed)
    out = []
    for line in content.split("\n"):
        if line and r.chance(0.3):
            out.append("%s%s" % (r.pick(cchars), r.pick([" note", "", " key=value [x]", "## heading"])))
        if trail and line and not line.startswith("[") and r.chance(0.2):
            line = line + r.pick([" ", "\t", "  "]) + r.pick(cchars) + r.pick([" trailing", "t", ""])
        out.append(line)
        if line and r.chance(0.15):
            out.append("")
    return "\n".join(out)


def option_string(read):
    o = read["opts"]
    items = []
    if o.get("root_prefix"):
        rp = read.get("root", "$ROOT")
        items.append("ROOT_PREFIX=" + ("." if (read.get("rel") and rp == "$ROOT") else rel(read, rp)))
    if o.get("parsing_dirs"):
        items.append("PARSING_DIRS=" + ":".join(dirarg(read, d) for d in o["parsing_dirs"]))
    if o.get("config_dirs"):
        items.append("CONFIG_DIRS=" + ":".join(o["config_dirs"]))
    for x in o.get("extra", []):
        items.append(x)
    return ";".join(items)


def model_of(world, mask_first=True):
    read = world["read"]
    tree = Tree(world["nodes"])
    name = name_of(read)
    if not name:
        return None
    return m5(tree, layers_of(read), name, read.get("suffix"), postfixes_of(read), mask_first=mask_first)


def trap_nodes(read):
    """files in the working directory $ROOT/trap with the names a layer's files would have without a directory part"""
    name = name_of(read)
    suf = norm_suffix(read.get("suffix"))
    pfs = postfixes_of(read)
    pfs = pfs if pfs is not None else [suf + ".d"]
    out = [{"p": "$ROOT/trap/%s%s" % (name, suf), "t": "f", "entries": [[None, "x", "trap-main"], [None, "trapped", "1"]]}]
    for pf in pfs:
        if not pf.startswith("/") or suf:
            p = norm("$ROOT/trap/%s%s/99-trap%s" % (name, pf, suf))
            if not any(n["p"] == p for n in out):
                out.append({"p": p, "t": "f", "entries": [[None, "y", "trap-dropin"], [None, "trapped", "2"]]})
    return out


def gen_layered_world(rng, i, two_layer=None, want_files=True, small=False, allow_refuse=True, allow_nosuffix=True, allow_repeat=False, allow_dotdot=False, allow_join=False):
    """Generates a tree of DESIGN.md 5.3 plus the parameters of one layered read."""
    read = {"delim": "=", "comment": "#", "opts": {}}
    R = "$ROOT"
    if rng.chance(0.05):
        # a deep tree: absolute paths of several hundred bytes (still far below PATH_MAX)
        R = "$ROOT/" + "d" * rng.pick([100, 120, 200]) + "/" + "e" * rng.pick([60, 130, 250])
        read["root"] = R
    shape = rng.random()
    if two_layer is None:
        two_layer = shape < 0.25
    suffix_sp = rng.pick(["conf", ".conf", "conf", ".conf", None, "", "conf.in", ".cfg.local"]) if allow_nosuffix else rng.pick(["conf", ".conf", "conf.in"])
    read["suffix"] = suffix_sp
    name = rng.pick(["app", "a", "my.app", "app", "a", "my.app", "p%s%n"])
    read["name"] = name
    if two_layer:
        read["ep"] = "readDirs"
        read["usr"] = R + rng.pick(["/usr/etc", "/usr/lib/p", "/v"])
        read["etc"] = R + rng.pick(["/etc", "/etc/p", "/e"])
        if rng.chance(0.08):
            # directory ARGUMENTS are taken literally: characters that separate items inside an option string
            # are ordinary characters of a path
            if rng.chance(0.7):
                read["usr"] = R + rng.pick(["/usr:1.0/etc", "/v;1", "/v=x y", "/usr/p:q;r"])
            if rng.chance(0.7):
                read["etc"] = R + rng.pick(["/etc:d", "/e;tc", "/e=1", "/etc/;"])
        nlayers = 2
    else:
        read["ep"] = "readConfig"
        r = rng.random()
        if r < 0.08:
            # no ROOT_PREFIX, no PARSING_DIRS: vendor directory inside the sandbox, the real /run and /etc
            # hold nothing for this project name
            read["project"] = "lesim-proj-%d" % rng.randrange(1000)
            read["usr_subdir"] = R + rng.pick(["/vend", "/usr/lib"])
            if rng.chance(0.25):
                read["name"] = None
            nlayers = 3
        elif r < 0.45:
            read["opts"]["root_prefix"] = True
            read["project"] = rng.pick(["proj", None, "p2"])
            read["usr_subdir"] = rng.pick(["/usr/lib", "/usr/etc", "/usr/share/x"])

            if read["project"] is None and rng.chance(0.15) and allow_refuse:
                read["name"] = None            # both NULL: must be refused
            elif read["project"] is not None and rng.chance(0.3):
                read["name"] = None            # drop-ins only
            nlayers = 3
        else:
            nlayers = rng.pick([1, 2, 3, 3, 3, 4, 4, 6])
            read["opts"]["parsing_dirs"] = [R + "/%s" % d for d in rng.sample(["usr/lib/p", "run/p", "etc/p", "opt/p", "v", "e", "l3", "k=v", "sp ace/p"], nlayers)]
            if nlayers >= 2 and rng.chance(0.06) and allow_repeat:
                # a directory listed twice (A:B:A): it acts at its LAST position
                pd = read["opts"]["parsing_dirs"]
                k = rng.randrange(len(pd) - 1)
                pd.insert(rng.randrange(k + 2, len(pd) + 1), pd[k])
                read["repeated_layer"] = True
            if rng.chance(0.06):
                # one more layer that cannot hold anything: a component of its path is a regular file
                read["opts"]["parsing_dirs"].insert(rng.randrange(nlayers + 1), R + "/afile/sub")
                read["bogus_layer"] = True
            read["project"] = rng.pick(["proj", None])
            read["usr_subdir"] = rng.pick(["/usr/lib", None])
            if read["project"] is not None and rng.chance(0.15):
                read["name"] = None
        if rng.chance(0.15):
            # parsing options that must not change anything for files that define every key once
            read["opts"]["extra"] = [rng.pick(["JOIN_SAME_ENTRIES=1", "JOIN_SAME_ENTRIES=1", "PYTHON_STYLE=1"])]
        if rng.chance(0.25):
            # an EMPTY list element names the directory <layer>/<name> itself (like the spelling "/")
            read["opts"]["config_dirs"] = rng.pick([[".d"], [".conf.d", ".d"], ["/conf.d"], [".d", "/conf.d"], [".dropins"], [".d", ""], ["", ".conf.d"], [".d", "", "/conf.d"]])
        if rng.chance(0.25) and (read["opts"].get("parsing_dirs") or read["opts"].get("root_prefix")):
            read["opts"]["root_prefix"] = True
    if read["ep"] == "readConfig" and rng.chance(0.4):
        read["empty_spelling"] = rng.pick(["name", "name", "both"])
    if rng.chance(0.3):
        read["global_dirs"] = rng.pick([[".d"], [".conf.d", ".d"], ["/conf.d", ".d"], [".x.d"], ["/conf.d"], [".a.d", ".b.d", ".c.d"]])
    if rng.chance(0.15):
        read["global_pre"] = rng.pick([[[".old.d"]], [["/x.d", ".y.d"]], [[".d"], ["/conf.d"]]])
    if rng.chance(0.2):
        read["global_late"] = True      # the list in force at READ time counts, not the one at object creation
    read["cb"] = rng.chance(0.5)
    # delimiter and comment sets of the read; tree files are rendered to match (plain profile + inert noise)
    read["delim"] = rng.pick(["=", "=", "=", ":", "= ", ":=", "=\t"])
    read["comment"] = rng.pick(["#", "#", ";", "#;", ";#", ""])      # the empty set is documented to mean "#"
    if rng.chance(0.15):
        read["slash"] = True       # directory arguments with a trailing slash
    if not norm_suffix(read["suffix"]):
        # without a suffix "<layer>/<name>" is the main file; a postfix like "/conf.d" would make it a directory
        for holder, key in ((read["opts"], "config_dirs"), (read, "global_dirs")):
            if holder.get(key):
                holder[key] = [d for d in holder[key] if not d.startswith("/") and d != ""] or [".d"]

    if (read["ep"] == "readConfig" and read["opts"].get("root_prefix") and not read["opts"].get("parsing_dirs") and read.get("project") is not None
            and read.get("name") and (read.get("usr_subdir") or "").startswith("/") and rng.chance(0.12)):
        # the vendor sub-directory spelled without its leading slash: with a project it is still joined below the root prefix
        read["usr_subdir"] = read["usr_subdir"][1:]
    nodes = []
    eff_name = name_of(read)
    if not eff_name:
        world = {"kind": "layered", "read": read, "nodes": nodes, "cfg": io_cfg(rng)}
        return world
    layers = layers_of(read)
    suf = norm_suffix(read["suffix"])
    pfs = postfixes_of(read)
    pfs_eff = pfs if pfs is not None else [suf + ".d"]
    fid = 0
    # main files: stratified over the first three layers
    pat = i % 64
    dropin_only = (not read["ep"].startswith("readDirs")) and not read.get("name")
    for li, layer in enumerate(layers):
        st = MAIN_STATES[(pat >> (2 * li)) & 3] if li < 3 else rng.pick(MAIN_STATES)
        if dropin_only or not layer.startswith("$ROOT") or layer.endswith("/afile/sub") or layer in layers[:li]:
            st = "absent"     # no main file is defined in this mode / layer outside the sandbox / below a regular file / listed before
        p = norm("%s/%s%s" % (layer, eff_name, suf))
        if st == "regular":
            fid += 1
            nodes.append({"p": p, "t": "f", "entries": file_entries(rng, fid)})
        elif st == "empty":
            nodes.append({"p": p, "t": "f", "entries": []})
        elif st == "devnull":
            nodes.append({"p": p, "t": "l", "to": "/dev/null"})
    if read.get("bogus_layer"):
        nodes.append({"p": R + "/afile", "t": "f", "entries": []})
    # a main file that exists for lstat() but cannot be opened (dangling symbolic link) in the highest layer
    # that has no main file: it is no file (5.3), lower layers must be used as if it were absent
    if not dropin_only and rng.chance(0.06):
        for layer in reversed(layers):
            p = norm("%s/%s%s" % (layer, eff_name, suf))
            if layer.startswith("$ROOT") and not any(norm(n["p"]) == p for n in nodes):
                nodes.append({"p": p, "t": "l", "to": R + "/nowhere/gone.conf"})
                break
    # drop-in directories
    maxd = 3 if small else 6
    pool = list(NAME_POOL)
    for li, layer in enumerate(layers):
        used_here = set()
        if not layer.startswith("$ROOT") or layer.endswith("/afile/sub") or layer in layers[:li]:
            continue
        for pf in pfs_eff:
            d = norm("%s/%s%s" % (layer, eff_name, pf))
            r = rng.random()
            if r < 0.25:
                continue                       # directory absent
            if r < 0.35:
                nodes.append({"p": d, "t": "d"})   # present but empty
                continue
            cand = [n for n in pool if n not in used_here]
            names = rng.subset(cand, 1, maxd)
            if rng.chance(0.04):
                # a crowded directory: growth of the consulted list well past its initial size
                names = names + ["%02d-n" % k for k in rng.sample(range(10, 60), rng.randint(6, 22))]
            elif rng.chance(0.006):
                # hundreds of drop-ins in one directory
                names = names + ["%03d-m" % k for k in rng.sample(range(100, 600), rng.randint(120, 300))]
            if suf and rng.chance(0.08):
                # names that contain the suffix once more before their end: <x>.conf.conf, <x>.conf.d.conf
                names = names + [n_ for n_ in rng.subset(["twice" + suf, "mid" + suf + ".d", suf[1:] + "-first"], 1, 2) if n_ not in used_here]
            for nm in names:
                used_here.add(nm)
                fid += 1
                kind = rng.random()
                node = {"p": "%s/%s%s" % (d, nm, suf), "t": "f", "entries": file_entries(rng, fid, maxkeys=4)}
                if nm.endswith("-m") and len(nm) == 5:
                    node["entries"] = node["entries"][:1]
                if kind < 0.07:
                    node = {"p": "%s/%s%s" % (d, nm, suf), "t": "f", "entries": []}
                    if rng.chance(0.4):
                        # files of one to three bytes that define nothing
                        cch = (read["comment"] or "#")[0]
                        node["c"] = rng.pick(["\n", cch, "\n\n", cch + "\n", " \n", cch + " x"])
                elif kind < 0.12:
                    node = {"p": "%s/%s%s" % (d, nm, suf), "t": "l", "to": "/dev/null"}

                nodes.append(node)
            if rng.chance(0.05) and not d.startswith("$ROOT/trap"):
                # the drop-in directory itself is a symbolic link to a directory elsewhere (etc/app.conf.d -> ../site/app.d):
                # the model keeps the logical paths, tree_plan() puts the files behind the link
                fid += 1
                nodes.append({"p": d, "t": "d", "via": R + "/store/dir%d" % fid})
            if suf and rng.chance(0.05):
                # a SUB-DIRECTORY whose name carries the suffix (50-old.conf/): it is looked at like the files next to it -
                # checks, callback - but it is no file and contributes nothing
                fid += 1
                nodes.append({"p": "%s/subdir-%d%s" % (d, fid, suf), "t": "d", "sub": True})
            # non-members (only meaningful with a suffix)
            if suf and rng.chance(0.5):
                for nm in rng.subset(["10-a", "zz%s.bak" % suf, "q%sx" % suf, suf, ".hidden", "9-b%s~" % suf], 1, 3):
                    if any(basename(n["p"]) == nm for n in nodes if n["p"].startswith(d + "/")):
                        continue
                    fid += 1
                    nodes.append({"p": "%s/%s" % (d, nm), "t": "f", "entries": file_entries(rng, fid, maxkeys=3)})
    # drop a path clash: a node that is both a file and the parent of another node
    paths = {n["p"] for n in nodes}
    nodes = [n for n in nodes if not (n["t"] != "d" and any(q.startswith(n["p"] + "/") for q in paths))]
    dch = read["delim"][0]
    for n in nodes:
        if n["t"] == "f":
            n["delim"] = dch
            if rng.chance(0.1):
                n["nonl"] = True          # the last line of the file has no newline
            if allow_join and read["opts"].get("extra") == ["JOIN_SAME_ENTRIES=1"] and not read.get("repeated_layer") and n.get("entries") and rng.chance(0.6):
                # the option is in force for EVERY file of the read: a key that a file gives twice carries both texts.
                # (The key is the file's own: what a merge makes of a joined key that ANOTHER file also defines is not
                #  covered by any property - the library keeps the second line as an entry of its own.)
                s_ = rng.pick(n["entries"])[0]
                idx = nodes.index(n)
                k_, v_, v2 = "jj%d" % idx, "d%d" % idx, "j%d" % rng.randrange(100)
                last = max(i_ for i_, x in enumerate(n["entries"]) if x[0] == s_)
                n["entries"].insert(last + 1, [s_, k_, v_ + "\n" + v2])
                n["split"] = [s_, k_, v_, v2]
            if rng.chance(0.12):
                # section headers without any live key (all keys commented out): they carry nothing
                n["empty_secs"] = rng.subset(SECS + ["Z"], 1, 2)
            if rng.chance(0.5):
                n["noise"] = rng.getrandbits(24)
                n["cchars"] = read["comment"] or "#"
                if "PYTHON_STYLE=1" in read["opts"].get("extra", []):
                    n["notrail"] = True     # in python style a comment character after a value belongs to the value
    cfg = io_cfg(rng)
    read["satisfied"] = satisfied_security(rng, 0.15)
    if rng.chance(0.2) and all(l.startswith("$ROOT") for l in layers):
        # relative names: the run's working directory is $ROOT
        read["rel"] = True
        cfg["cwd"] = "$ROOT"
        # (relative names are made absolute with realpath(): paths reported back would be the physical ones behind a
        #  directory link, which the logical model cannot know - directory links stay with absolute names)
        nodes = [n for n in nodes if not n.get("via")]
        if allow_dotdot and rng.chance(0.15):
            return apply_dotdot({"kind": "layered", "read": read, "nodes": nodes, "cfg": cfg})
    elif allow_dotdot and rng.chance(0.06) and all(l.startswith("$ROOT") for l in layers):
        return apply_dotdot({"kind": "layered", "read": read, "nodes": [n for n in nodes if not n.get("via")], "cfg": cfg})
    elif rng.chance(0.3):
        # all names are absolute: the working directory is none of the library's business.  It holds a trap - files
        # with the names a layer would have if a path lost its directory part
        cfg["cwd"] = "$ROOT/trap"
        nodes += trap_nodes(read)
    return {"kind": "layered", "read": read, "nodes": nodes, "cfg": cfg}


def split_entries(n):
    """entries as the file spells them: a key whose text was joined from two lines (JOIN_SAME_ENTRIES) is given twice,
    the second time at the end of its section"""
    ents = [tuple(x) for x in n.get("entries", [])]
    sp = n.get("split")
    if sp:
        s_, k_, v1, v2 = sp
        for j, e in enumerate(ents):
            if e[0] == s_ and e[1] == k_ and e[2] == v1 + "\n" + v2:
                ents[j] = (s_, k_, v1)
                last = max(i for i, x in enumerate(ents) if x[0] == s_)
                ents.insert(last + 1, (s_, k_, v2))
                break
    return ents


def tree_plan(nodes):
    out = []
    via = {n["p"]: n["via"] for n in nodes if n.get("via")}
    links = []
    for n in nodes:
        if n.get("via"):
            out.append({"t": "d", "p": n["via"]})
            links.append({"t": "l", "p": n["p"], "to": n["via"]})
            continue
        e = {"t": n["t"], "p": n["p"]}
        for d_, target in via.items():
            if n["p"].startswith(d_ + "/"):
                e["p"] = target + n["p"][len(d_):]       # physically behind the directory link
                break
        if n["t"] == "f":
            e["c"] = n["c"] if "c" in n else render_plain(split_entries(n), n.get("delim", "="), n.get("pad", ""))
            if "c" not in n and n.get("empty_secs"):
                # key-less headers: one block before the first real section, the rest at the end of the file
                lines = e["c"].split("\n")
                first = next((i for i, l in enumerate(lines) if l.startswith("[")), len(lines))
                es = [x for x in n["empty_secs"] if not any(en[0] == x for en in n.get("entries", []))]
                head = ["[%s]" % x for x in es[:1]]
                tail = ["[%s]" % x for x in es[1:]]
                lines = lines[:first] + head + lines[first:]
                e["c"] = "\n".join([l for l in lines if l != "" or True]).rstrip("\n") + "\n" + "".join(t + "\n" for t in tail)
            if "c" not in n and n.get("noise") is not None and n.get("entries"):
                e["c"] = noisy(e["c"], n["noise"], n.get("cchars", "#"), trail=not n.get("notrail"))
            if n.get("nonl") and "c" not in n and e["c"].endswith("\n"):
                e["c"] = e["c"].rstrip("\n")
        elif n["t"] == "l":
            e["to"] = n["to"]
        for k in ("uid", "gid", "mode"):
            if k in n:
                e[k] = n[k]
        out.append(e)
    return out + links


def read_op(read, o=0, cb=None, ep=None, init="null", in_slot=None, faults=None):
    """executor op for the read described by `read`; for readConfig the object carrying
    the options must have been created by new_opts_op in slot in_slot."""
    ep = ep or read["ep"]
    op = {"o": o, "delim": read["delim"], "comment": read["comment"], "suffix": read.get("suffix"), "init": init}
    if cb is not None:
        op["cb"] = cb
    if faults:
        op["faults"] = faults
    if ep == "readConfig":
        # an absent optional argument is spelled NULL or "" (seeded per world): both mean "not given"
        name = read.get("name")
        if name is None and read.get("empty_spelling"):
            name = ""
        project = read.get("project")
        if project is None and read.get("empty_spelling") == "both":
            project = ""
        op.update({"op": "readConfig", "in": in_slot, "project": project, "usr_subdir": read.get("usr_subdir"), "name": name})
    elif ep == "readDirs":
        op.update({"op": "readDirs", "usr": dirarg(read, read.get("usr")), "etc": dirarg(read, read.get("etc")), "name": read.get("name")})
    elif ep == "readDirsHistory":
        op.update({"op": "readDirsHistory", "usr": dirarg(read, read.get("usr")), "etc": dirarg(read, read.get("etc")), "name": read.get("name")})
    return op


def final_global_ops(read):
    if read.get("global_dirs"):
        return [{"op": "setConfDirs", "dirs": read["global_dirs"]}]
    if read.get("global_pre"):
        return [{"op": "setConfDirs", "dirs": []}]
    return []


def prologue_ops(read):
    ops = []
    # restrictions that every file of the tree satisfies: in force for the whole run, they change nothing
    ops += [dict(o) for o in read.get("satisfied", [])]
    # earlier settings of the process-wide drop-in list that a later call replaced (or cleared again)
    for pre in read.get("global_pre", []):
        ops.append({"op": "setConfDirs", "dirs": pre})
    if not read.get("global_late"):
        ops += final_global_ops(read)
    return ops


def late_global_ops(read):
    """the final setting of the process-wide list, made AFTER the object of a layered read was created"""
    return final_global_ops(read) if read.get("global_late") else []


def layered_read_ops(read, cb=None, init="null", faults=None, dump_ext=False):
    """ops for one read through read['ep'] (readFile | readDirs | readDirsHistory | readConfig),
    tagged 'read' and 'dump'; the object/history ends up freed."""
    ops = []
    if read["ep"] == "readFile":
        op = {"op": "readFile", "o": 0, "path": rel(read, read["path"]), "delim": read["delim"], "comment": read["comment"], "init": init, "tag": "read"}
        if cb is not None:
            op["cb"] = cb
        if faults:
            op["faults"] = faults
        ops.append(op)
    elif read["ep"] == "readConfig":
        ops.append({"op": "newOpts", "o": 0, "options": option_string(read), "tag": "new"})
        ops += late_global_ops(read)
        ops.append(dict(read_op(read, o=0, cb=cb, in_slot=0, faults=faults), tag="read"))
    else:
        ops += late_global_ops(read)
        ops.append(dict(read_op(read, o=0, cb=cb, init=init, faults=faults), tag="read"))
    if read["ep"] == "readDirsHistory":
        ops.append({"op": "dumpHistory", "h": 0, "ext": dump_ext, "tag": "dump"})
        ops.append({"op": "freeHistory", "h": 0})
    else:
        ops.append({"op": "dump", "k": 0, "ext": dump_ext, "tag": "dump"})
        ops.append({"op": "free", "k": 0})
    return ops
