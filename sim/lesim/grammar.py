# Generator for the conventional grammar of DESIGN.md 5.1 (and its plain profile).
# Files are rendered from a line list; nothing here parses.
DSETS = ["=", ":=", " ", " \t", " =", "\t =", ""]
CSETS = ["#", ";", "#;"]
BL = " \t"

PRINT = [chr(c) for c in range(0x21, 0x7F)]
# bytes with the top bit set (latin-1 code points in the plan = single bytes in the file): ordinary text for the grammar
HIGH = [chr(c) for c in (0x80, 0x85, 0xA0, 0xC3, 0xA9, 0xE9, 0xFE, 0xFF)]


def dclass(D):
    if D == "":
        return "NONE"
    has_b = any(c in BL for c in D)
    has_n = any(c not in BL for c in D)
    return "MIXED" if has_b and has_n else ("BLANK" if has_b else "NONBLANK")


def blanks(rng, lo=0, hi=2, only=None):
    n = rng.randint(lo, hi)
    src = only if only else BL
    return "".join(rng.pick(src) for _ in range(n))


def token(rng, forbid, lo=1, hi=8, first_forbid="", inner_blank=False, extra=()):
    alpha = [c for c in PRINT if c not in forbid] + list(extra) * 4
    n = rng.randint(lo, hi)
    out = []
    for i in range(n):
        if inner_blank and 0 < i < n - 1 and rng.chance(0.15):
            out.append(" ")
            continue
        c = rng.pick(alpha)
        if i == 0:
            for _ in range(20):
                if c not in first_forbid:
                    break
                c = rng.pick(alpha)
            else:
                c = "k"
        out.append(c)
    s = "".join(out)
    return s


WORDS = ["Yes Please", "TRUE", "No", "oN", "yes", "0", "1", "0x1F", "017", "-42", "3.5e3", "NaN", "hello", "a b  c", "Off", "fAlSe", "99999999999999999999", "-99999999999999999999", "1e999", "4294967296", "1e-999"]


def gen_conventional(rng, D, C, nlines, plain=False, rich=False, sections=True, max_key=8, cont_trail=True, inner_quotes=True, quoted_out=None):
    """returns (lines, kinds, pairs): kinds[i] in blank|comment|header|entry|entry_plain|cont
    (entry_plain: an entry a continuation line may follow); pairs is the
    list of [section|None, key] in file order (keys are unique per section)."""
    cls = dclass(D)
    lines, kinds = [], []
    ex = HIGH if rng.chance(0.2) else ()      # this file also uses 8-bit bytes in keys, values, section names and comments
    prev = None
    used = set()
    pairs = []
    cursec = None
    secs = []

    def blank_ok():
        return prev not in ("entry", "entry_plain", "cont") and cls != "NONE"

    def gen_key():
        for _ in range(50):
            k = token(rng, BL + D + C + '"', 1, max_key, first_forbid="[", extra=ex)
            if k != "_none_" and (cursec, k) not in used:
                used.add((cursec, k))
                return k
        k = "k%d" % len(used)
        used.add((cursec, k))
        return k

    def gen_sep():
        if cls == "NONBLANK":
            return blanks(rng, 0, 2) + rng.pick([c for c in D]) + blanks(rng, 0, 2)
        if cls == "BLANK":
            return blanks(rng, 1, 3, only=[c for c in D])
        bl = [c for c in D if c in BL]
        nb = [c for c in D if c not in BL]
        s = blanks(rng, 0, 2, only=bl) + (rng.pick(nb) if rng.chance(0.6) else "") + blanks(rng, 0, 2, only=bl)
        return s if s else rng.pick(bl)

    def gen_plain_value():
        if rich and rng.chance(0.5):
            w = rng.pick(WORDS)
            if not any(c in C or c == '"' for c in w) and w[0] not in D and (cls == "BLANK" or True):
                return w
        inner = cls in ("BLANK", "NONBLANK", "MIXED")
        for _ in range(30):
            v = token(rng, BL + C + '"', 1, 10, first_forbid=D, inner_blank=inner, extra=ex)
            if v and v[0] not in BL and v[-1] not in BL and v != "_none_":
                if inner_quotes and len(v) >= 2 and rng.chance(0.15):
                    # a double quote inside (not at the start of) plain text is ordinary text: 5" floppy
                    k = rng.randrange(1, len(v))
                    v = v[:k] + '"' + v[k:]
                    if rng.chance(0.3):
                        v += '"'
                return v
        return "v"

    def gen_trail():
        return blanks(rng, 0, 2) + rng.pick(C) + token(rng, C + '"', 0, 8, inner_blank=True, extra=ex) if True else ""

    n = 0
    while n < nlines:
        r = rng.random()
        if plain:
            r = 0.5 + r / 2 if r < 0.3 and not blank_ok() else r
        if r < 0.10:
            # blank line
            if blank_ok() and rng.chance(0.5) and not plain:
                lines.append(blanks(rng, 1, 3))
            else:
                lines.append("")
            kinds.append("blank")
            prev = "blank"
        elif r < 0.25 and not plain:
            ind = blanks(rng, 0, 2) if blank_ok() else ""
            text = token(rng, "", 0, 12, inner_blank=True, extra=ex) if rng.chance(0.7) else token(rng, C + "[]=\"", 0, 12, inner_blank=True, extra=ex)
            lines.append(ind + rng.pick(C) + text)
            kinds.append("comment")
            # a comment line does not change what the next indented line is taken for
            prev = "comment"
        elif r < 0.38 and sections:
            s = None
            for _ in range(20):
                s = token(rng, "]" + C, 1, 8, inner_blank=True, extra=ex)
                if s != "_none_" and not (s.startswith("[")) and s.strip(BL) == s:
                    break
            else:
                s = "S%d" % len(secs)
            cursec = s
            if s not in secs:
                secs.append(s)
            lines.append(blanks(rng, 0, 2) + "[" + s + "]" + blanks(rng, 0, 2))
            kinds.append("header")
            prev = "header"
        elif r < 0.46 and cls == "NONBLANK" and prev in ("entry_plain", "cont") and not plain:
            ct = token(rng, D + C + '"', 1, 8, first_forbid="[" + BL, inner_blank=True, extra=ex)
            ct = ct.rstrip(BL) or "c"
            line = blanks(rng, 1, 3) + ct
            if cont_trail and rng.chance(0.2):
                line += gen_trail()
            lines.append(line)
            kinds.append("cont")
            prev = "cont"
        else:
            if cls == "NONE":
                kt = None
                for _ in range(30):
                    kt = token(rng, C, 1, 10, first_forbid="[" + BL, inner_blank=True, extra=ex).rstrip(BL)
                    if kt and kt != "_none_" and (cursec, kt) not in used:
                        break
                used.add((cursec, kt))
                pairs.append([cursec, kt])
                lines.append(blanks(rng, 0, 2) + kt + blanks(rng, 0, 2))
                kinds.append("entry")
                prev = "entry"
            else:
                k = gen_key()
                pairs.append([cursec, k])
                vk = rng.random()
                line = blanks(rng, 0, 2) + k + gen_sep()
                pk = "entry"
                if plain or vk < 0.6:
                    line += gen_plain_value()
                    pk = "entry_plain"
                elif vk < 0.8:
                    qt = token(rng, '"', 0, 10, inner_blank=True, extra=ex)
                    no_trail = False
                    if inner_quotes and rng.chance(0.15):
                        # double quotes INSIDE quoted text (also first or last): the text between the outermost pair is
                        # the value as long as no comment byte is involved ('"a quoted string"', '"x ', 'say "hi" twice')
                        qt = token(rng, C, 1, 10, inner_blank=True, extra=ex)
                        k = rng.randrange(0, len(qt) + 1)
                        qt = qt[:k] + '"' + qt[k:]
                        if rng.chance(0.5):
                            k = rng.randrange(0, len(qt) + 1)
                            qt = qt[:k] + '"' + qt[k:]
                        no_trail = True
                    line += '"' + blanks(rng, 0, 1 if rng.chance(0.3) else 0) + qt + blanks(rng, 0, 2 if rng.chance(0.3) else 0) + '"'
                    if quoted_out is not None and not no_trail:
                        quoted_out.append(len(lines))       # index of a line whose value is quoted text without inner quotes
                    if no_trail:
                        line += blanks(rng, 0, 2)
                        lines.append(line)
                        kinds.append("entry")
                        prev = "entry"
                        n += 1
                        continue
                else:
                    pass   # missing value
                if not plain and rng.chance(0.2) and cls != "NONE":
                    line += gen_trail()
                    if not cont_trail:
                        pk = "entry"
                line += blanks(rng, 0, 2) if not plain else ""
                lines.append(line)
                kinds.append(pk)
                prev = pk
        n += 1
    # normalise prev kinds that only served generation
    return lines, kinds, pairs


def render(lines, final_newline=True):
    return "\n".join(lines) + ("\n" if lines and final_newline else "")
