# Proving the simulator itself: determinism, fidelity of the stubs, sensitivity (mutants).
import glob
import json
import os
import shutil
import subprocess
import sys
import tempfile
import time

from . import driver
from .driver import Build, run_batch, load_prop, log, VERIF


def available_props():
    out = []
    for p in driver.PROPS:
        if os.path.exists(os.path.join(driver.SIM, "lesim", "props", p.lower() + ".py")):
            out.append(p)
    return out


def determinism(build, seed, props, n, worker_counts=(1, 4)):
    """every seed is executed once per worker count; the per-seed result hashes must be identical"""
    bad = {}
    total = 0
    for pid in props:
        ref = None
        for w in worker_counts:
            st = run_batch(pid, build, seed, n, "quick", w, chunk=max(1, n // (w * 3)))
            h = st.get("hashes", {})
            total += len(h)
            if ref is None:
                ref = h
            else:
                diff = [i for i in ref if ref[i] != h.get(i)]
                if diff:
                    bad[pid] = diff[:10]
    return bad, total


def setup_main(seed):
    t0 = time.time()
    flavours = ("asan", "tsan", "plain")
    with Build(flavours) as build:
        log("setup: executors built in %.1fs" % build.build_s)
        props = available_props()
        bad, total = determinism(build, seed, props, 40)
    if bad:
        log("setup: NONDETERMINISTIC seeds: %s" % json.dumps(bad))
        return 2
    log("setup: determinism ok (%d executions over %s) in %.1fs" % (total, props, time.time() - t0))
    return 0


def determinism_main(seed, tier):
    n = 300 if tier == "quick" else 3000
    flavours = ("asan", "tsan", "plain")
    with Build(flavours) as build:
        bad, total = determinism(build, seed, available_props(), n, worker_counts=(1, 4, 16))
    print(json.dumps({"executions": total, "nondeterministic": bad}))
    return 2 if bad else 0


def selftest_main(seed, which=None):
    """applies each /verif/mutants/*.patch (must break its property) and each
    /verif/mutants/benign/*.patch (must not raise an alarm) to a scratch copy of the
    sources and runs the owning quick check with REPO=<scratch>."""
    rc = 0
    patches = sorted(glob.glob(os.path.join(VERIF, "mutants", "*.patch"))) + sorted(glob.glob(os.path.join(VERIF, "mutants", "benign", "*.patch")))
    for p in patches:
        name = os.path.basename(p)
        if which and which not in name:
            continue
        benign = "/benign/" in p
        props = name.split("-")[0].split("_")
        scratch = tempfile.mkdtemp(prefix="lesim-mut.")
        try:
            for d in ("lib", "include", "util"):
                shutil.copytree(os.path.join(driver.REPO, d), os.path.join(scratch, d))
            a = subprocess.run(["patch", "-p1", "-s", "-d", scratch, "-i", p], capture_output=True, text=True)
            if a.returncode != 0:
                print("SELFTEST %s: patch does not apply: %s" % (name, a.stdout[-300:]))
                rc = 2
                continue
            caught = []
            for pid in props:
                r = subprocess.run([os.path.join(VERIF, "bin", "lesim-check"), pid, "quick"], env=dict(os.environ, REPO=scratch, LESIM_NO_EVIDENCE="1"), capture_output=True, text=True)
                if r.returncode == 1 and "VIOLATION property=%s" % pid in r.stdout:
                    caught.append(pid)
                elif r.returncode not in (0, 1):
                    print("SELFTEST %s: check %s failed to run (rc %d): %s" % (name, pid, r.returncode, r.stderr[-300:]))
                    rc = 2
            if benign:
                print("SELFTEST benign %s: %s" % (name, "FALSE ALARM by " + ",".join(caught) if caught else "quiet (ok)"))
                if caught:
                    rc = 1
            else:
                print("SELFTEST mutant %s: %s" % (name, "caught by " + ",".join(caught) if caught else "MISSED"))
                if not caught:
                    rc = 1
        finally:
            shutil.rmtree(scratch, ignore_errors=True)
    return rc
