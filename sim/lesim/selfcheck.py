# Proving the simulator itself: determinism, fidelity of the stubs, sensitivity (mutants).
import glob
import json
import os
import shutil
import subprocess
import sys
import tempfile
import time

from . import driver
from .driver import Build, run_batch, load_prop, log, VERIF


def available_props():
    out = []
    for p in driver.PROPS:
        if os.path.exists(os.path.join(driver.SIM, "lesim", "props", p.lower() + ".py")):
            out.append(p)
    return out


def determinism(build, seed, props, n, worker_counts=(1, 4)):
    """every seed is executed once per worker count; the per-seed result hashes must be identical"""
    bad = {}
    total = 0
    for pid in props:
        ref = None
        for w in worker_counts:
            st = run_batch(pid, build, seed, n, "quick", w, chunk=max(1, n // (w * 3)))
            h = st.get("hashes", {})
            total += len(h)
            if ref is None:
                ref = h
            else:
                diff = [i for i in ref if ref[i] != h.get(i)]
                if diff:
                    bad[pid] = diff[:10]
    return bad, total


def hashes_in_fresh_interpreter(build, seed, pid, n, hashseed):
    """per-seed result hashes computed by a fresh interpreter under another PYTHONHASHSEED"""
    code = ("import json,sys; sys.path.insert(0, %r); from lesim import driver; from lesim.driver import Build, run_batch\n"
            "b = Build.__new__(Build); b.dir = %r; b.flavours = ()\n"
            "st = run_batch(%r, b, %d, %d, 'quick', 3, chunk=max(1, %d // 7))\n"
            "print(json.dumps(st.get('hashes', {})))\n") % (driver.SIM, build.dir, pid, seed, n, n)
    p = subprocess.run([sys.executable, "-c", code], env=dict(os.environ, PYTHONHASHSEED=str(hashseed), PYTHONPATH=driver.SIM), capture_output=True, text=True)
    if p.returncode != 0:
        raise RuntimeError(p.stderr[-2000:])
    return {int(k): v for k, v in json.loads(p.stdout.strip().splitlines()[-1]).items()}


def fidelity(build, seed, n=60):
    """fault-free plans executed fully interposed (seeded shuffle, cookie streams with short reads, heap fill)
    and in pure pass-through mode must give the same operation results"""
    from .driver import Ctx, case_world
    from .core import canon, strip_volatile
    bad = []
    total = 0
    ctx = Ctx(build, "fid", tag="fid")
    try:
        ex = ctx.executor("asan")
        for pid in [p for p in ("C01", "C07", "C11", "C12", "C13") if p in available_props()]:
            mod = load_prop(pid)
            for i in range(n):
                world = case_world(mod, seed, i, "quick")
                plans = mod.build_plans(world)
                for k, plan in enumerate(plans[:3]):
                    # (descriptor 0 is closed only by the interposed mode; the descriptor count a budget op reports would
                    #  differ by one for that reason alone, so the dimension is switched off on both sides)
                    a = dict(plan, cfg=dict(plan.get("cfg", {}), shuffle=True, dtype_unknown=True, short_reads=3, fill=0xA5, errno_noise=True, passthrough=False, fd0_free=False), id="a")
                    b = dict(plan, cfg=dict(plan.get("cfg", {}), passthrough=True, fd0_free=False), id="b")
                    ra, rb = ex.run(a), ex.run(b)
                    total += 1
                    va = canon(strip_volatile({"ops": ra.get("ops"), "tasks": ra.get("tasks"), "fatal": ra.get("fatal")}))
                    vb = canon(strip_volatile({"ops": rb.get("ops"), "tasks": rb.get("tasks"), "fatal": rb.get("fatal")}))
                    if va != vb:
                        bad.append({"property": pid, "index": i, "plan": k})
    finally:
        ctx.close()
    return bad, total


def write_report(name, obj):
    d = os.path.join(VERIF, "reports")
    os.makedirs(d, exist_ok=True)
    with open(os.path.join(d, name), "w") as f:
        json.dump(obj, f, indent=1, sort_keys=True)


def setup_main(seed):
    t0 = time.time()
    flavours = ("asan", "tsan", "plain")
    with Build(flavours) as build:
        log("setup: executors built in %.1fs" % build.build_s)
        props = available_props()
        bad, total = determinism(build, seed, props, 24)
        fbad, ftotal = fidelity(build, seed, n=12)
    if bad:
        log("setup: NONDETERMINISTIC seeds: %s" % json.dumps(bad))
        return 2
    if fbad:
        log("setup: interposed and pass-through executions differ: %s" % json.dumps(fbad[:5]))
        return 2
    log("setup: determinism ok (%d executions over %s), fidelity ok (%d plan pairs) in %.1fs" % (total, props, ftotal, time.time() - t0))
    return 0


def determinism_main(seed, tier):
    """large determinism sample: every seed executed at worker counts 1, 4 and 16 in this interpreter and once
    more by a fresh interpreter under another PYTHONHASHSEED; all per-seed result hashes must be identical.
    Also the fidelity comparison (interposed vs. pass-through).  Report: /verif/reports/determinism.json"""
    n = 200 if tier == "quick" else 1500
    flavours = ("asan", "tsan", "plain")
    t0 = time.time()
    report = {"seed": seed, "seeds_per_property": n, "worker_counts": [1, 4, 16], "other_pythonhashseed": 424242, "properties": {}}
    rc = 0
    with Build(flavours) as build:
        for pid in available_props():
            nn = n if pid != "C18" else max(20, n // 8)
            bad, total = determinism(build, seed, [pid], nn, worker_counts=(1, 4, 16))
            ref = run_batch(pid, build, seed, nn, "quick", 2).get("hashes", {})
            other = hashes_in_fresh_interpreter(build, seed, pid, nn, 424242)
            hs_bad = [i for i in ref if ref[i] != other.get(i)]
            report["properties"][pid] = {"seeds": nn, "executions": total + 2 * nn, "nondeterministic_across_worker_counts": bad.get(pid, []), "nondeterministic_across_hashseed": hs_bad[:10]}
            if bad or hs_bad:
                rc = 2
        fbad, ftotal = fidelity(build, seed, n=40 if tier == "quick" else 300)
        report["fidelity"] = {"plan_pairs": ftotal, "differences": fbad[:10]}
        if fbad:
            rc = 2
    report["wall_s"] = round(time.time() - t0, 1)
    write_report("determinism.json", report)
    print(json.dumps(report)[:3000])
    return rc


def selftest_main(seed, which=None):
    """applies each /verif/mutants/*.patch (must break its property) and each
    /verif/mutants/benign/*.patch (must not raise an alarm) to a scratch copy of the
    sources and runs the owning quick check with REPO=<scratch>."""
    rc = 0
    patches = sorted(glob.glob(os.path.join(VERIF, "mutants", "*.patch"))) + sorted(glob.glob(os.path.join(VERIF, "mutants", "benign", "*.patch")))
    for p in patches:
        name = os.path.basename(p)
        if which and which not in name:
            continue
        benign = "/benign/" in p
        props = name.split("-")[0].split("_")
        scratch = tempfile.mkdtemp(prefix="lesim-mut.")
        try:
            for d in ("lib", "include", "util"):
                shutil.copytree(os.path.join(driver.REPO, d), os.path.join(scratch, d))
            a = subprocess.run(["patch", "-p1", "-s", "-d", scratch, "-i", p], capture_output=True, text=True)
            if a.returncode != 0:
                print("SELFTEST %s: patch does not apply: %s" % (name, a.stdout[-300:]))
                rc = 2
                continue
            caught = []
            for pid in props:
                r = subprocess.run([os.path.join(VERIF, "bin", "lesim-check"), pid, "quick"], env=dict(os.environ, REPO=scratch, LESIM_NO_EVIDENCE="1"), capture_output=True, text=True)
                if r.returncode == 1 and "VIOLATION property=%s" % pid in r.stdout:
                    caught.append(pid)
                elif r.returncode not in (0, 1):
                    print("SELFTEST %s: check %s failed to run (rc %d): %s" % (name, pid, r.returncode, r.stderr[-300:]))
                    rc = 2
            if benign:
                print("SELFTEST benign %s: %s" % (name, "FALSE ALARM by " + ",".join(caught) if caught else "quiet (ok)"))
                if caught:
                    rc = 1
            else:
                print("SELFTEST mutant %s: %s" % (name, "caught by " + ",".join(caught) if caught else "MISSED"))
                if not caught:
                    rc = 1
        finally:
            shutil.rmtree(scratch, ignore_errors=True)
    # independently seeded breaking changes: evaluated against the commit they were written for
    for d in sorted(glob.glob(os.path.join(VERIF, "seeded", "S*"))):
        name = os.path.basename(d)
        if which and which not in name:
            continue
        with open(os.path.join(d, "meta.json")) as f:
            meta = json.load(f)
        base = meta["base_commit"].split()[0]
        pid = meta["property"]
        scratch = tempfile.mkdtemp(prefix="lesim-seed.")
        try:
            # preferably on top of the CURRENT tree (so that a defect repaired after the change was written cannot be what
            # the check reports); if the change does not apply there, on the commit it was written against
            for sub in ("lib", "include", "util"):
                shutil.copytree(os.path.join(driver.REPO, sub), os.path.join(scratch, sub))
            a = subprocess.run(["true"], capture_output=True, text=True)
            b = subprocess.run(["patch", "-p1", "-s", "-f", "--dry-run", "-d", scratch, "-i", os.path.join(d, "patch.diff")], capture_output=True, text=True)
            if b.returncode == 0 and not meta.get("evaluate_on_base"):
                b = subprocess.run(["patch", "-p1", "-s", "-f", "-d", scratch, "-i", os.path.join(d, "patch.diff")], capture_output=True, text=True)
            else:
                for sub in ("lib", "include", "util"):
                    shutil.rmtree(os.path.join(scratch, sub), ignore_errors=True)
                a = subprocess.run("git -C %s archive %s lib include util | tar -x -C %s" % (driver.REPO, base, scratch), shell=True, capture_output=True, text=True)
                b = subprocess.run(["patch", "-p1", "-s", "-d", scratch, "-i", os.path.join(d, "patch.diff")], capture_output=True, text=True)
            if a.returncode != 0 or b.returncode != 0:
                print("SELFTEST seeded %s: cannot prepare sources: %s %s" % (name, a.stderr[-200:], b.stdout[-200:]))
                rc = 2
                continue
            r = subprocess.run([os.path.join(VERIF, "bin", "lesim-check"), pid, "quick"], env=dict(os.environ, REPO=scratch, LESIM_NO_EVIDENCE="1"), capture_output=True, text=True)
            if r.returncode == 1 and "VIOLATION property=%s" % pid in r.stdout:
                cls = [l.strip() for l in r.stdout.splitlines() if l.strip().startswith("class=")]
                print("SELFTEST seeded %s: caught by %s (%s)" % (name, pid, cls[0][:80] if cls else ""))
            elif meta.get("not_detected") and r.returncode == 0:
                # a documented limit of the generators (DESIGN.md 12.5): reported, not counted as a regression
                print("SELFTEST seeded %s: not detected by %s - documented limit: %s" % (name, pid, meta["not_detected"][:100]))
            else:
                print("SELFTEST seeded %s: MISSED by %s (rc %d)" % (name, pid, r.returncode))
                rc = 1 if rc == 0 else rc
        finally:
            shutil.rmtree(scratch, ignore_errors=True)
    return rc
