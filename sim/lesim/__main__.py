import argparse
import os
import sys

from . import driver


def main():
    ap = argparse.ArgumentParser(prog="lesim-check")
    ap.add_argument("cmd")
    ap.add_argument("arg", nargs="?")
    ap.add_argument("--build-dir")
    ap.add_argument("--runs", type=int)
    ap.add_argument("--workers", type=int)
    ap.add_argument("--wall-cap", type=float)
    ap.add_argument("--seed", type=int)
    a = ap.parse_args()
    seed = a.seed if a.seed is not None else int(os.environ.get("VERIF_SEED", "20261001"))
    if a.cmd == "replay":
        sys.exit(driver.replay_main(a.arg, a.build_dir))
    if a.cmd in driver.PROPS:
        tier = a.arg or os.environ.get("VERIF_TIER", "quick")
        sys.exit(driver.check_main(a.cmd, tier, seed, workers=a.workers, runs=a.runs, wall_cap=a.wall_cap))
    if a.cmd == "setup":
        from . import selfcheck
        sys.exit(selfcheck.setup_main(seed))
    if a.cmd == "determinism":
        from . import selfcheck
        sys.exit(selfcheck.determinism_main(seed, a.arg or "quick"))
    if a.cmd == "selftest":
        from . import selfcheck
        sys.exit(selfcheck.selftest_main(seed, a.arg))
    print("unknown command", a.cmd, file=sys.stderr)
    sys.exit(2)


try:
    main()
except SystemExit:
    raise
except BaseException:
    # a defect of the machinery itself must never look like a verdict (exit 1 is reserved for violations)
    import traceback
    traceback.print_exc()
    print("lesim-check: internal error in the checking machinery (exit 2)", file=sys.stderr)
    sys.exit(2)
