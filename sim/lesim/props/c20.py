# C20 - every allocation is released exactly once on every path, failures included.
import copy

from .. import gen
from ..core import canon, strip_volatile, Rng
from ..models import norm, basename
from .base import Verdict, sig_of, tagged, all_tagged, crash_check, leak_check, rc_in_enum
from . import c11, c16

ID = "C20"
LEVEL = "fault_enumeration"
RUNS = (3500, 60000)
RULE = ("one seeded scenario: (a) a C11 API history with extended getters, or (b) a C01 tree read through one of the eight entry "
        "points with a failure injected at EVERY consulted file in turn (two seeded kinds per position out of: callback veto, "
        "foreign owner, foreign group, symlink under restriction, malformed line, unreadable, vanished after listing, read error "
        "mid-file) plus the fault-free read, unknown option strings, a missing single file and a read into a library-created "
        "object; every plan is executed under two heap fill bytes; oracle = allocation-ledger conservation, stream conservation, "
        "out-pointer validity, identical results under both fill bytes, ASan silent; non-trivial = >= 2 consulted files or a "
        "history with growth; distinct = distinct (scenario kind, entry point, fault kind, position class) per execution")

KINDS = ["veto", "owner", "group", "symlink", "malformed", "unreadable", "vanish", "eio"]
FILLS = [0xA5, 0x00, 0xFF, 0x5B, 0x0A, 0x7E]


BORROW = ("c07", "c10", "c12", "c13", "c06", "c04", "c04")


def gen_world(rng, i, tier):
    if rng.chance(0.2):
        # the complete workload of another check (write/read-back, query histories incl. merges, all six
        # entry points on one tree, malformed lines at every position, vetoes) under this property's oracle only
        import importlib
        name = rng.pick(BORROW)
        mod = importlib.import_module("lesim.props." + name)
        w = {"scenario": "borrowed", "from": name, "inner": mod.gen_world(rng, i, tier), "fills": rng.sample(FILLS, 2)}
        if name == "c07" and w["inner"].get("src") == "parsed" and w["inner"].get("lines") and rng.chance(0.4):
            # a comment block longer than the 8 KiB stdio buffer in front of one entry (what the comment reads back as
            # is C14's subject; who owns its memory while it is written is this property's)
            inner = w["inner"]
            ents = [k for k, (kind, _) in enumerate(inner["lines"]) if kind in ("entry", "entry_plain")]
            if ents:
                at = rng.pick(ents)
                block = [["comment", inner["c"] + " " + "long comment %03d " % n + "x" * 60] for n in range(rng.pick([110, 130, 260]))]
                inner["lines"] = inner["lines"][:at] + block + inner["lines"][at:]
                w["long_comment"] = True
        w["cfg"] = w["inner"].get("cfg", {})
        return w
    if rng.chance(0.25):
        w = c11.gen_world(rng, i, tier)
        w["scenario"] = "history"
        w["fills"] = rng.sample(FILLS, 2)
        return w
    w = gen.gen_layered_world(rng, i, small=rng.chance(0.7), allow_refuse=True)
    w["scenario"] = "layered"
    read = w["read"]
    if not gen.name_of(read):
        w["ep"] = "readConfig"
    elif rng.chance(0.1):
        gen.single_file_world(rng, w)
        w["ep"] = rng.pick(["readFile", "readFileCb"])
    elif read["ep"] == "readDirs":
        w["ep"] = rng.pick(["readDirs", "readDirsCb", "readDirsHistory", "readDirsHistoryCb"])
    else:
        w["ep"] = rng.pick(["readConfig", "readConfigCb"])
    w["fills"] = rng.sample(FILLS, 2)
    w["init"] = rng.pick(["null", "sentinel"])
    w["fault_seed"] = rng.getrandbits(32)
    w["bad_options"] = rng.pick(["FOO=1", "JOIN_SAME_ENTRIES=2", "PARSING_DIRS=/a:/b;BAR", "CONFIG_DIRS=.d;ROOT_PREFIX=/x;python_style=1", "ROOT_PREFIX=/x;;", "JOIN_SAME_ENTRIES=1;PYTHON_STYLE=1;X"])
    w["odd_options"] = rng.pick(["PARSING_DIRS=", "PARSING_DIRS=:", "CONFIG_DIRS=", "CONFIG_DIRS=:", "ROOT_PREFIX=", "PARSING_DIRS=$ROOT/a:", "PARSING_DIRS=:$ROOT/a", "PARSING_DIRS=$ROOT/a::$ROOT/b",
                                 "JOIN_SAME_ENTRIES=1;JOIN_SAME_ENTRIES=1", "ROOT_PREFIX=$ROOT;ROOT_PREFIX=$ROOT/x", "CONFIG_DIRS=.d;PARSING_DIRS=$ROOT/a;PYTHON_STYLE=1", ";", "PARSING_DIRS=$ROOT/a;",
                                 "PARSING_DIRS=$ROOT/a:$ROOT/b;PARSING_DIRS=$ROOT/c", "CONFIG_DIRS=.d:.x.d;CONFIG_DIRS=/conf.d", "PARSING_DIRS=$ROOT/a;CONFIG_DIRS=.d;PARSING_DIRS=$ROOT/b:$ROOT/c:$ROOT/d"])
    w["req_uid"], w["req_gid"] = 0, 0
    w["rules"] = []
    w["setter_history"] = "plain"
    return w


def consulted_of(world):
    if world["read"]["ep"] == "readFile":
        return [world["read"]["path"]]
    m = gen.model_of(world)
    return [] if m is None else m["consulted"]


def fault_list(world):
    cons = consulted_of(world)
    r = Rng(world.get("fault_seed", 1))
    cbv = world["ep"].endswith("Cb")
    m = gen.model_of(world) if world["read"]["ep"] != "readFile" and gen.name_of(world["read"]) else None
    out = [None]
    for k in gen.enum_positions(len(cons), world.get("fault_seed", 1), cap=16):
        p = cons[k]
        kinds = [x for x in KINDS if (x != "veto" or cbv)]
        if m and p == m["main"]:
            kinds = [x for x in kinds if x != "vanish"]
        for kind in r.sample(kinds, 2):
            out.append([k, kind])
    return out


def layered_plan(world, fault, fill):
    read = dict(world["read"])
    ep = world["ep"]
    cbv = ep.endswith("Cb")
    read["ep"] = ep[:-2] if cbv else ep
    cons = consulted_of(world)
    nodes = copy.deepcopy(world["nodes"])
    sec, faults, cb = [], None, ({} if cbv else None)
    if fault is not None:
        k, kind = fault
        p = cons[k]
        if kind == "veto":
            cb = {"reject_norm": [p]}
        elif kind in ("owner", "group", "symlink"):
            w2 = dict(world, rules=[kind], nodes=nodes)
            nodes = c16.nodes_for(w2, {p: [kind]})
            sec = c16.security_ops(w2)
        elif kind == "malformed":
            for n in nodes:
                if norm(n["p"]) == p:
                    n["t"] = "f"
                    n.pop("entries", None)
                    n.pop("to", None)
                    n["c"] = "ok=1\n[oops\n"
        elif kind == "unreadable":
            faults = [{"k": "fopen_fail", "path": p, "a": 13}]
        elif kind == "vanish":
            faults = [{"k": "vanish", "path": p}]
        elif kind == "eio":
            faults = [{"k": "eio", "path": p, "a": 3}]
    ops = gen.prologue_ops(read)
    ops += sec
    ops += gen.layered_read_ops(read, cb=cb, init=world["init"], faults=faults, dump_ext=True)
    ops.append({"op": "security", "what": "reset"})
    # a few more ownership situations around the read
    ops.append({"op": "newOpts", "o": 5, "options": world["bad_options"], "init": world["init"], "tag": "badopt"})
    ops.append({"op": "dump", "k": 5, "ext": False, "tag": "badopt_dump"})
    ops.append({"op": "free", "k": 5})
    ops.append({"op": "readFile", "o": 6, "path": "$ROOT/nosuch.conf", "delim": "=", "comment": "#", "init": world["init"], "tag": "missing"})
    # an accepted but unusual option string, then a layered read through that object (nothing to find), then free
    ops.append({"op": "newOpts", "o": 8, "options": world.get("odd_options", "PARSING_DIRS="), "tag": "oddopt"})
    ops.append({"op": "readConfig", "in": 8, "o": 8, "project": "lesim-no-such-project", "usr_subdir": "/lesim-nonexistent", "name": "lesim-nothing", "suffix": "conf",
                "delim": "=", "comment": "#", "need": ["in"], "tag": "oddread"})
    ops.append({"op": "free", "k": 8})
    ops.append({"op": "readConfig", "in": None, "o": 7, "project": "lesim-no-such-project", "usr_subdir": "/lesim-nonexistent", "name": "nothing", "suffix": "conf",
                "delim": "=", "comment": "#", "tag": "libobj"})
    ops.append({"op": "free", "k": 7})
    ops.append({"op": "freeNull", "tag": "freenull"})
    # a write that fails while the data is flushed (the target is a link to /dev/full, the text exceeds the stdio buffer):
    # the stream is the library's to close on that path too
    ops.append({"op": "newKeyFile", "o": 11, "delim": 61, "comment": 35, "tag": "bigobj"})
    ops.append({"op": "set", "k": 11, "type": "String", "group": "big", "key": "text", "v": "x" * 9000, "need": ["k"]})
    ops.append({"op": "write", "k": 11, "dir": "$ROOT/wfull", "name": "full.conf", "need": ["k"], "tag": "write_full"})
    ops.append({"op": "free", "k": 11})
    # the working directory is removed under the process: relative names that start with ".." still reach their file for
    # lstat(), but the directory part can no longer be made absolute - one more way for a read to fail midway
    ops.append({"op": "chdir", "path": "$ROOT/gone/cwd"})
    ops.append({"op": "rmcwd"})
    ops.append({"op": "readFile", "o": 9, "path": "../relx.conf", "delim": "=", "comment": "#", "init": world["init"], "tag": "nocwd"})
    ops.append({"op": "free", "k": 9})
    ops.append({"op": "readDirsHistory", "o": 9, "usr": "../relusr", "etc": "../reletc", "name": "app", "suffix": "conf", "delim": "=", "comment": "#", "tag": "nocwd"})
    ops.append({"op": "freeHistory", "h": 9})
    cfg = dict(world["cfg"], fill=fill)
    tree = gen.tree_plan(nodes) + [{"t": "d", "p": "$ROOT/wfull"}, {"t": "l", "p": "$ROOT/wfull/full.conf", "to": "/dev/full"}, {"t": "f", "p": "$ROOT/gone/relx.conf", "c": "k=v\n"}, {"t": "f", "p": "$ROOT/gone/relusr/app.conf", "c": "a=1\n"},
                                   {"t": "f", "p": "$ROOT/gone/reletc/app.conf.d/x.conf", "c": "b=2\n"}]
    return {"cfg": cfg, "tree": tree, "ops": ops}


def history_plan(world, fill):
    p = c11.build_plans(world)[0]
    for op in p["ops"]:
        if op.get("op") == "dump":
            op["ext"] = True
    # extended getter on every key that was set
    extra = []
    seen = []
    for a in world["ops"]:
        if a[0] == "set" and [a[2], a[3]] not in seen:
            seen.append([a[2], a[3]])
            g = a[2]
            if g is not None and g.startswith("["):
                g = g[1:-1]
            extra.append({"op": "getExt", "k": 0, "group": g, "key": a[3], "tag": "ext"})
    # a setter that refuses its value for a key that does not exist yet, followed by growth: whatever the refused
    # call leaves behind must still be owned exactly once
    extra.append({"op": "set", "k": 0, "type": "Bool", "group": None, "key": "lesim-refused", "v": "maybe", "tag": "refused_new"})
    extra.append({"op": "set", "k": 0, "type": "Bool", "group": "lesim-sec", "key": "lesim-refused", "v": "2", "tag": "refused_new"})
    extra.append({"op": "set", "k": 0, "type": "String", "group": None, "key": "lesim-after", "v": "x", "tag": "after_refused"})
    # an object created with options (prefix, directory lists, flags) and filled through the setters as input of the public
    # merge, in both roles: each object owns its own strings afterwards
    extra.append({"op": "newOpts", "o": 30, "options": "ROOT_PREFIX=$ROOT/x;CONFIG_DIRS=.d:.e;PARSING_DIRS=$ROOT/a:$ROOT/b;JOIN_SAME_ENTRIES=1", "tag": "optobj"})
    extra.append({"op": "set", "k": 30, "type": "String", "group": "dflt", "key": "k", "v": "v", "need": ["k"], "tag": "optobj"})
    extra.append({"op": "merge", "o": 31, "usr": 30, "etc": 0, "need": ["usr", "etc"], "tag": "optmerge"})
    extra.append({"op": "merge", "o": 32, "usr": 0, "etc": 30, "need": ["usr", "etc"], "tag": "optmerge"})
    extra.append({"op": "dump", "k": 31, "ext": True, "tag": "optdump"})
    for sl in (31, 30, 32):
        extra.append({"op": "free", "k": sl})
    p["ops"] = p["ops"][:-2] + extra + p["ops"][-2:] + [{"op": "freeNull", "tag": "freenull"}]
    p["cfg"] = dict(world["cfg"], fill=fill)
    return p


def build_plans(world):
    plans = []
    if world["scenario"] == "borrowed":
        import importlib
        mod = importlib.import_module("lesim.props." + world["from"])
        for p in mod.build_plans(world["inner"])[:12]:
            p["cfg"] = dict(p.get("cfg", {}), fill=world["fills"][0])
            plans.append(p)
        return plans
    if world["scenario"] == "history":
        for f in world["fills"]:
            plans.append(history_plan(world, f))
        return plans
    if not gen.name_of(world["read"]) and world["read"]["ep"] != "readFile":
        faults = [None]
    else:
        faults = fault_list(world)
    for fl in faults:
        for f in world["fills"]:
            plans.append(layered_plan(world, fl, f))
    return plans


def check(world, plans, results):
    v = Verdict()
    for k, res in enumerate(results):
        if crash_check(v, res, "plan %d" % k):
            v.sig = sig_of("crash", v.classes())
            return v
    sigs = set()
    if world["scenario"] == "borrowed":
        for k, res in enumerate(results):
            leak_check(v, res, "borrowed %s plan %d" % (world["from"], k))
            for r in res.get("ops", []):
                if "rc" in r and isinstance(r["rc"], int) and not rc_in_enum(r["rc"]) and r["rc"] != -1:
                    v.fail("rc-range", "borrowed %s: return code %r outside the documented enum" % (world["from"], r["rc"]))
                if r.get("anomaly"):
                    v.fail("out-pointer", "borrowed %s: %s" % (world["from"], r["anomaly"]))
        v.nontrivial = True
        v.sig = sig_of("borrowed", world["from"], len(results), sum(len(r.get("ops", [])) for r in results) // 8)
        v.probe("borrowed_" + world["from"])
        if world.get("long_comment"):
            v.probe("comment_block_longer_than_BUFSIZ_written")
        v.probe("executions", len(results))
        return v
    if world["scenario"] == "history":
        labels = ["history"]
    else:
        fl = [None] if (not gen.name_of(world["read"]) and world["read"]["ep"] != "readFile") else fault_list(world)
        labels = fl
    cons = consulted_of(world) if world["scenario"] == "layered" else []
    for n, lab in enumerate(labels):
        a, b = results[2 * n], results[2 * n + 1]
        pa = plans[2 * n]
        what = "scenario %r" % (lab,)
        for res in (a, b):
            leak_check(v, res, what)
            for r in res.get("ops", []):
                if "rc" in r and isinstance(r["rc"], int) and not rc_in_enum(r["rc"]) and r["rc"] != -1:
                    v.fail("rc-range", "%s: return code %r outside the documented enum" % (what, r["rc"]))
                if r.get("anomaly"):
                    v.fail("out-pointer", "%s: %s" % (what, r["anomaly"]))
            fn = tagged(pa, res, "freenull")
            if fn and not (fn.get("file_null") and fn.get("array_null")):
                v.fail("free-null", "%s: the free functions must accept NULL and return NULL" % what)
        # (v) no uninitialised memory: identical results under two heap fill bytes
        ca, cb = canon(strip_volatile(dict(a, ledger=None, id=None))), canon(strip_volatile(dict(b, ledger=None, id=None)))
        if ca != cb:
            from .c10 import first_diff
            v.fail("uninit", "%s: results depend on the heap fill byte (%#x vs %#x): %s" % (what, world["fills"][0], world["fills"][1], first_diff(dict(a, ledger=None, id=None), dict(b, ledger=None, id=None))))
        if world["scenario"] == "layered":
            rd = tagged(pa, a, "read")
            if lab is not None:
                k, kind = lab
                fired = rd.get("faults_fired")
                posc = "single" if len(cons) == 1 else ("first" if k == 0 else ("last" if k == len(cons) - 1 else "middle"))
                sigs.add((world["ep"], kind, posc, rd["rc"] != 0))
                v.probe("fault_" + kind)
                if rd["rc"] != 0:
                    v.probe("failing_read")
            else:
                sigs.add((world["ep"], "none", "-", rd["rc"] != 0))
            bo = tagged(pa, a, "badopt")
            if bo["rc"] == 0:
                v.fail("badopt", "option string %r was accepted" % world["bad_options"])
        else:
            sigs.add(("history", world["ctor"]))
    v.nontrivial = len(cons) >= 2 or (world["scenario"] == "history" and len(world["ops"]) >= 15)
    tsig = ""
    if world["scenario"] == "layered" and world["read"]["ep"] != "readFile" and gen.name_of(world["read"]):
        from . import c01 as _c01
        tsig = _c01.layered_signature(world, gen.model_of(world))
    v.sig = sig_of(world["scenario"], sorted(sigs, key=str), tsig, len(world.get("ops", [])) // 5)
    v.probe("executions", len(results))
    return v


def shrink_lists(world):
    if world["scenario"] == "borrowed":
        import importlib
        mod = importlib.import_module("lesim.props." + world["from"])
        return [("inner",) + tuple(pth) for pth in mod.shrink_lists(world["inner"])]
    if world["scenario"] == "history":
        return [("ops",)] + ([("file",)] if world.get("file") else [])
    out = [("nodes",)]
    for i, n in enumerate(world["nodes"]):
        if n.get("entries"):
            out.append(("nodes", i, "entries"))
    return out
