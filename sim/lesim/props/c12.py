# C12 - all layered-read entry points agree with each other and with the history.
from .. import gen
from ..core import canon, strip_volatile
from ..models import Tree, norm, dump_to_conf, conf_diff, basename
from .base import Verdict, sig_of, tagged, crash_check, cb_paths
from . import c01

ID = "C12"
LEVEL = "exploration"
RUNS = (16000, 300000)
RULE = ("one seeded two-layer tree (incl. NULL/empty directory arguments, suffix spellings, process-wide drop-in list) read through "
        "all six entry points in one run: the four merged results must be pairwise equal and equal to model M5, both histories must "
        "list the consulted files in order, each member must equal an independent econf_readFile of its path, and folding the "
        "history with econf_mergeFiles under same-name skipping must reproduce the merged result; three-layer trees compare "
        "econf_readConfig with and without callback against M5; non-trivial = >= 2 consulted files in both layers; "
        "distinct = C01 tree signature x argument shape")


def gen_world(rng, i, tier):
    two = rng.chance(0.8)
    w = gen.gen_layered_world(rng, i, two_layer=two, allow_refuse=False, allow_repeat=True, allow_dotdot=True)
    read = w["read"]
    if two:
        shape = rng.random()
        if shape < 0.08:
            read["usr"] = rng.pick([None, ""])
            w["nodes"] = [n for n in w["nodes"] if not n["p"].startswith("$ROOT/usr") and not n["p"].startswith("$ROOT/v")]
        elif shape < 0.16:
            read["etc"] = rng.pick([None, ""])
            w["nodes"] = [n for n in w["nodes"] if not n["p"].startswith("$ROOT/e")]
        read["name"] = rng.pick(["lesimapp", "ls.app"]) if (not read.get("usr") or not read.get("etc")) else read["name"]
        if w["cfg"].get("cwd") == "$ROOT/trap":
            # the trap in the working directory follows the name
            w["nodes"] = [n for n in w["nodes"] if not n["p"].startswith("$ROOT/trap/")] + gen.trap_nodes(read)
        if not read.get("usr") or not read.get("etc"):
            # the tree was generated for another name: regenerate file names is not needed, the remaining layer just has no match
            pass
    else:
        read["opts"].pop("config_dirs", None)
    # the process-wide no-symlink rule is in force while all variants run: whatever it makes of the tree (links to
    # /dev/null are links), it makes the same of it for every entry point - with or without a callback
    w["nosymlinks"] = rng.chance(0.08)
    return w


def option_expressible(read):
    """can the two directories be written as a PARSING_DIRS item?  (':' and ';' are the separators there)"""
    return not any(ch in (read.get("usr") or "") + (read.get("etc") or "") for ch in ":;")


def build_plans(world):
    read = world["read"]
    ops = gen.prologue_ops(read)
    if world.get("nosymlinks"):
        ops.append({"op": "security", "what": "symlinks", "v": False})
    late = gen.late_global_ops(read)
    if read["ep"] == "readDirs":
        pd = "PARSING_DIRS=%s:%s" % (gen.dirarg(read, read.get("usr")) or "", gen.dirarg(read, read.get("etc")) or "")
        # the objects of the two econf_readConfig calls are created first; a "late" final setting of the
        # process-wide drop-in list comes after that and is in force for every read below
        for slot in (2, 3):
            ops.append({"op": "newOpts", "o": slot, "options": pd})
        ops += late
        ops.append(dict(gen.read_op(read, o=0), tag="r_dirs"))
        ops.append({"op": "dump", "k": 0, "ext": False, "tag": "d_dirs"})
        ops.append(dict(gen.read_op(read, o=1, cb={}), tag="r_dirs_cb"))
        ops.append({"op": "dump", "k": 1, "ext": False, "tag": "d_dirs_cb"})
        for slot, cb, tag in ((2, None, "config"), (3, {}, "config_cb")) if option_expressible(read) else ():
            op = {"op": "readConfig", "in": slot, "o": slot, "project": None, "usr_subdir": None, "name": read["name"], "suffix": read.get("suffix"),
                  "delim": read["delim"], "comment": read["comment"], "tag": "r_" + tag}
            if cb is not None:
                op["cb"] = cb
            ops.append(op)
            ops.append({"op": "dump", "k": slot, "ext": False, "tag": "d_" + tag})
        ops.append(dict(gen.read_op(read, o=0, ep="readDirsHistory"), tag="r_hist"))
        ops.append({"op": "dumpHistory", "h": 0, "ext": False, "tag": "d_hist"})
        ops.append(dict(gen.read_op(read, o=1, ep="readDirsHistory", cb={}), tag="r_hist_cb"))
        ops.append({"op": "dumpHistory", "h": 1, "ext": False, "tag": "d_hist_cb"})
        model = gen.model_of(world)
        ops.append({"op": "mergeHistory", "h": 0, "o": 4, "tag": "fold", "first_is_main": bool(model and model["main"])})
        ops.append({"op": "dump", "k": 4, "ext": False, "tag": "d_fold"})
        # the members are inputs of the fold, not consumed by it: the same history folded once more gives the same
        ops.append({"op": "dumpHistory", "h": 0, "ext": False, "tag": "d_hist_after"})
        ops.append({"op": "mergeHistory", "h": 0, "o": 5, "tag": "fold2", "first_is_main": bool(model and model["main"])})
        ops.append({"op": "dump", "k": 5, "ext": False, "tag": "d_fold2"})
        ops.append({"op": "free", "k": 5})
        for n, p in enumerate(model["consulted"] if model else []):
            ops.append({"op": "readFile", "o": 10 + n, "path": p, "delim": read["delim"], "comment": read["comment"], "tag": "single%d" % n})
            ops.append({"op": "dump", "k": 10 + n, "ext": False, "tag": "d_single%d" % n})
            ops.append({"op": "free", "k": 10 + n})
        for k in (0, 1, 2, 3, 4):
            ops.append({"op": "free", "k": k})
        ops.append({"op": "freeHistory", "h": 0})
        ops.append({"op": "freeHistory", "h": 1})
    else:
        for slot, cb, tag in ((2, None, "config"), (3, {}, "config_cb")):
            ops.append({"op": "newOpts", "o": slot, "options": gen.option_string(read)})
            if slot == 2:
                ops += late
            ops.append(dict(gen.read_op(read, o=slot, cb=cb, in_slot=slot), tag="r_" + tag))
            ops.append({"op": "dump", "k": slot, "ext": False, "tag": "d_" + tag})
            ops.append({"op": "free", "k": slot})
    return [{"cfg": world["cfg"], "tree": gen.tree_plan(world["nodes"]), "ops": ops}]


def members_view(d):
    out = []
    for m in d.get("members", []):
        c, secs = dump_to_conf(m)
        out.append((norm(m.get("path") or ""), c, [s for s in secs if c.keys(s)]))
    return out


def check(world, plans, results):
    v = Verdict()
    plan, res = plans[0], results[0]
    read = world["read"]
    if crash_check(v, res, "entry points"):
        v.sig = sig_of("crash", v.classes())
        return v
    model = gen.model_of(world)
    tags = ["dirs", "dirs_cb", "config", "config_cb"] if read["ep"] == "readDirs" else ["config", "config_cb"]
    if read["ep"] == "readDirs" and not option_expressible(read):
        tags = ["dirs", "dirs_cb"]
        v.probe("directory_argument_with_separator_characters")
    rcs = {t: tagged(plan, res, "r_" + t)["rc"] for t in tags}
    dumps = {t: tagged(plan, res, "d_" + t) for t in tags}
    if len(set(rcs.values())) != 1:
        v.fail("agree:rc", "entry points disagree on the return code: %r" % rcs)
    else:
        # "identical configurations": the complete ordered listing, not only the mapping
        ref = canon(strip_volatile(dumps[tags[0]]))
        for t in tags[1:]:
            if canon(strip_volatile(dumps[t])) != ref:
                how = "different configurations" if canon(strip_volatile(conf_view(dumps[t]))) != canon(strip_volatile(conf_view(dumps[tags[0]]))) else "the same mapping in a different order / with different tags"
                v.fail("agree:content", "%s and %s return %s" % (tags[0], t, how))
                break
    if world.get("nosymlinks"):
        v.probe("no_symlink_rule_in_force_for_all_variants")
    if world.get("nosymlinks") and set(rcs.values()) == {20}:
        # the rule refused a link somewhere in the tree (also one that the model does not count as consulted: a stale
        # main-file candidate).  When and with which code it does so is C16's business; here only the agreement counts
        if read["ep"] == "readDirs":
            rh, rhc = tagged(plan, res, "r_hist"), tagged(plan, res, "r_hist_cb")
            if rh["rc"] != rhc["rc"] or rh["rc"] != rcs["dirs"]:
                v.fail("history:rc", "history variants return %r / %r, merged read returns %r" % (rh["rc"], rhc["rc"], rcs["dirs"]))
        v.sig = sig_of("nosymlinks", sorted(set(rcs.values())))
        return v
    # against the model (D7 aware)
    c01.compare_with_model(v, world, rcs[tags[0]], dumps[tags[0]], res, None, oracle_prefix="m5")
    if read["ep"] == "readDirs":
        rh, rhc = tagged(plan, res, "r_hist"), tagged(plan, res, "r_hist_cb")
        if rh["rc"] != rhc["rc"] or rh["rc"] != rcs["dirs"]:
            v.fail("history:rc", "history variants return %r / %r, merged read returns %r" % (rh["rc"], rhc["rc"], rcs["dirs"]))
        elif rh["rc"] == 0:
            h, hc = members_view(tagged(plan, res, "d_hist")), members_view(tagged(plan, res, "d_hist_cb"))
            if [(p, c.entries) for p, c, s in h] != [(p, c.entries) for p, c, s in hc]:
                v.fail("history:agree", "the two history variants differ")
            tree = Tree(world["nodes"])
            paths = [p for p, c, s in h if tree.is_fileish(p)]
            expected_paths = model["consulted"]
            if paths != expected_paths:
                v.fail("history:paths", "history lists %r, consulted files are %r" % (paths, expected_paths))
            elif rh.get("size") != len(h):
                v.fail("history:size", "size out-value %r but %d members" % (rh.get("size"), len(h)))
            else:
                hf = [x for x in h if tree.is_fileish(x[0])]
                for n, p in enumerate(model["consulted"]):
                    single = tagged(plan, res, "d_single%d" % n)
                    sc, ss = dump_to_conf(single)
                    if sc.entries != hf[n][1].entries:
                        v.fail("history:member", "history member %d (%s) differs from an independent read of that file" % (n, p))
                        break
            # the fold does not use its inputs up
            ha = tagged(plan, res, "d_hist_after")
            if ha is not None and v.ok:
                if [(p_, c_.entries) for p_, c_, s_ in members_view(ha)] != [(p_, c_.entries) for p_, c_, s_ in h]:
                    v.fail("fold:inputs", "after merging the history its members no longer hold what they held before")
                f2 = tagged(plan, res, "d_fold2")
                if f2 is not None and canon(strip_volatile(f2)) != canon(strip_volatile(tagged(plan, res, "d_fold"))):
                    v.fail("fold:inputs", "merging the same history a second time gives a different result")
            # (iii) fold of the history = merged result
            fold = tagged(plan, res, "fold")
            if fold["rc"] == 0 and v.ok:
                fc, fs = dump_to_conf(tagged(plan, res, "d_fold"))
                mc, ms = dump_to_conf(dumps["dirs"])
                d = conf_diff(fc, mc, [s for s in ms if mc.keys(s)])
                if d:
                    first = model["consulted"][0] if model["consulted"] else None
                    if model["main"] is None and first in model["masked"] and any(k["id"] == "D7" for k in v.known):
                        pass      # the same known finding D7, already recorded by the model comparison
                    elif model["main"] is None and first in model["masked"]:
                        alt = gen.model_of(world, mask_first=False)
                        if not conf_diff(alt["merged"], mc, [s for s in ms if mc.keys(s)]):
                            v.known_finding("D7", "fold of the history with uniform same-name skipping differs from the merged result: first consulted drop-in %s is masked but still merged" % first)
                        else:
                            v.fail("fold", "merging the history left to right does not reproduce the merged result: " + "; ".join(d[:4]))
                    else:
                        v.fail("fold", "merging the history left to right does not reproduce the merged result: " + "; ".join(d[:4]))
    layers = set()
    for p in model["consulted"]:
        for l in gen.layers_of(read):
            if l and p.startswith(norm(l) + "/"):
                layers.add(l)
                break
    v.nontrivial = len(model["consulted"]) >= 2 and len(layers) >= 2
    shape = "usrnull" if read["ep"] == "readDirs" and not read.get("usr") else ("etcnull" if read["ep"] == "readDirs" and not read.get("etc") else "full")
    v.sig = sig_of(c01.layered_signature(world, model), shape)
    if shape != "full":
        v.probe("null_or_empty_directory_argument")
    if model["masked"]:
        v.probe("masked_dropin")
    if read.get("global_dirs"):
        v.probe("process_wide_dropin_list")
    return v


def conf_view(d):
    c, secs = dump_to_conf(d)
    m = {"%s\x00%s" % (k[0], k[1]): ("" if t is None else t) for k, t in c.map().items()}
    return {"map": m, "secs": sorted(s for s in secs if c.keys(s))}


shrink_lists = c01.shrink_lists
