# C10 - queries never change the configuration.
from .. import gen, grammar
from ..core import canon, strip_volatile
from .base import Verdict, sig_of, crash_check

ID = "C10"
LEVEL = "exploration"
RUNS = (12000, 300000)
RULE = ("one seeded object (parsed 5.1 file, setter history, or merge result; values biased towards mixed-case booleans, numbers in all "
        "bases, quoted and multi-line text) followed by a seeded history of 5-40 read-only calls; after EVERY call the full dump "
        "(listing, string+extended getters, tags, path, bytes written by econf_writeFile) must equal the dump taken before the first "
        "call; non-trivial = object with >= 3 keys and a history using >= 4 different query kinds incl. a failing getter; "
        "distinct = distinct (source kind, delimiter class, set of query kinds, #keys bucket)")

TYPES = ["Int", "Int64", "UInt", "UInt64", "Float", "Double", "String", "Bool"]
DEFS = {"Int": -7, "Int64": -7000000000, "UInt": 7, "UInt64": 7000000000, "Bool": True, "Float": 2.5, "Double": -0.125, "String": "dflt"}


def gen_world(rng, i, tier):
    src = rng.pick(["parsed", "parsed", "built", "merged", "layered", "optread"])
    optread = src == "optread"
    if optread:
        src = "parsed"          # the same kind of file, but read through an object that carries parsing options
    if src == "layered":
        lw = gen.gen_layered_world(rng, i, two_layer=True, small=True, allow_refuse=False)
        m = gen.model_of(lw)
        if m is None or m["nofile"]:
            src = "built"
        else:
            lw["read"]["ep"] = rng.pick(["readDirs", "readDirsHistory"])
            w = {"kind": "queries", "src": "layered", "D": "=", "C": "#", "cfg": lw["cfg"], "layered": {"read": lw["read"], "nodes": lw["nodes"]},
                 "member": rng.randrange(len(m["consulted"]))}
            pairs = [[k[0], k[1]] for k in m["merged"].map()]
            w["pairs"] = pairs
            w["queries"] = gen_queries(rng, pairs, tier)
            return w
    D = rng.pick(grammar.DSETS)
    C = rng.pick(grammar.CSETS)
    if rng.chance(0.1):
        # unusual but legal comment sets (white space, a structural character): whatever the parser makes of the file,
        # queries must not change it
        C = rng.pick(["\t", "#\t", " ;", "[", "\"", "k"])
    w = {"kind": "queries", "src": src, "D": D, "C": C, "cfg": gen.io_cfg(rng)}
    pairs = []
    if src in ("parsed", "merged"):
        lines, kinds, pairs = grammar.gen_conventional(rng, D, C, rng.randint(2, 25), rich=True)
        secs = sorted(set(p[0] for p in pairs if p[0] is not None))
        if secs and rng.chance(0.3):
            # a header written [[name]] is stored under the literal name "[name]": brackets inside section names
            sname = rng.pick(secs)
            for idx, k in enumerate(kinds):
                if k == "header" and lines[idx].strip(" \t") == "[%s]" % sname:
                    lines[idx] = lines[idx].replace("[%s]" % sname, "[[%s]]" % sname)
            pairs = [["[%s]" % sname if p[0] == sname else p[0], p[1]] for p in pairs]
        if grammar.dclass(D) != "NONE" and pairs and rng.chance(0.25):
            # a key defined twice in its section (legal without JOIN_SAME_ENTRIES: every lookup answers with the first)
            ent = [k for k, kd in enumerate(kinds) if kd in ("entry", "entry_plain")]
            for _ in range(rng.randint(1, 2)):
                n_ = rng.randrange(len(ent))
                at = ent[n_] + 1
                while at < len(kinds) and kinds[at] in ("cont", "entry", "entry_plain") and rng.chance(0.6):
                    at += 1
                while at < len(kinds) and kinds[at] == "cont":
                    at += 1
                sep = [c for c in D if c not in " \t"][:1] or [D[0]]
                lines.insert(at, pairs[n_][1] + sep[0] + "again%d" % rng.randrange(100))
                kinds.insert(at, "entry")
                ent = [k for k, kd in enumerate(kinds) if kd in ("entry", "entry_plain")]
                pairs.insert(ent.index(at), list(pairs[n_]))
            w["dup_keys"] = True
        w["lines"] = lines
        if src == "merged":
            l2, k2, p2 = grammar.gen_conventional(rng, D, C, rng.randint(1, 12), rich=True)
            w["lines2"] = l2
            pairs = pairs + [p for p in p2 if p not in pairs]
    else:
        sets = []
        secs = [None, "A", "B b", "C", "_oNne_"]
        for _ in range(rng.randint(1, 20)):
            sets.append([rng.pick(secs), rng.pick(["k1", "k2", "Name", "n", "flag"]), rng.pick(grammar.WORDS + ["", "multi\n  line", "\"q\"", "x#y", " lead", "trail ", "  both\t", "tab\tin", "line1\nline2 \n  line3", "L" * 1100, "seg " * 500, "Alpha\r\n  Beta\r\n  Gamma\r", "cr at the end\r", "Yes Please " * 800, "TRUE" + "x" * 8190, "No" * 4096, "0X" + "F" * 9000])])
        w["sets"] = sets
        w["ctor"] = rng.pick(["newKeyFile", "newIniFile", "newOpts"])
        for s, k, _ in sets:
            if [s, k] not in pairs:
                pairs.append([s, k])
    if optread and src == "parsed":
        # exactly one file in the tree: the layered read hands out the parsed object itself, options included
        w["optread"] = rng.pick(["JOIN_SAME_ENTRIES=1", "JOIN_SAME_ENTRIES=1", "PYTHON_STYLE=1", ""])
    w["pairs"] = pairs
    w["partner"] = rng.pick(["other", "twin"])
    w["queries"] = gen_queries(rng, pairs, tier)
    if rng.chance(0.12):
        # resource fault: only a dozen more descriptors may be opened, and the history contains many writes that fail
        # (the target name is a directory): whatever a failing call holds on to is missing for the calls after it
        w["fd_budget"] = rng.pick([10, 12, 16])
        w["queries"] = w["queries"][:8] + [["write_fail"]] * rng.pick([20, 30]) + w["queries"][8:12]
    return w


def gen_queries(rng, pairs, tier):
    qs = []
    for _ in range(rng.randint(5, 40) if tier != "quick" else rng.randint(5, 25)):
        r = rng.random()
        if pairs and rng.chance(0.85):
            s, k = rng.pick(pairs)
        else:
            s, k = rng.pick([None, "A", "nosuch"]), "nokey"
        sp = s if s is None or rng.chance(0.7) else "[%s]" % s
        if r < 0.08:
            qs.append(["groups"])
        elif r < 0.16:
            qs.append(["keys", s])
        elif r < 0.50:
            qs.append(["get", rng.pick(TYPES), sp, k])
        elif r < 0.68:
            qs.append(["getdef", rng.pick(TYPES), sp, k])
        elif r < 0.76:
            qs.append(["ext", s, k])
        elif r < 0.80:
            qs.append(["path"])
        elif r < 0.84:
            qs.append(["tags"])
        elif r < 0.885:
            qs.append(["write"])
        elif r < 0.90:
            qs.append(["write_nodir", ""])        # refused (no directory): a failing query like any other
        elif r < 0.93:
            qs.append(["merge_base"])
        elif r < 0.955:
            qs.append(["merge_into_own_variable"])
        elif r < 0.98:
            qs.append(["merge_over"])
        else:
            qs.append(["merge_self"])       # the object in both roles of one merge
    return qs


def q_exec(q):
    o = q[0]
    if o == "groups":
        return [{"op": "getGroups", "k": 0}]
    if o == "keys":
        return [{"op": "getKeys", "k": 0, "group": q[1]}]
    if o == "get":
        return [{"op": "get", "k": 0, "type": q[1], "group": q[2], "key": q[3]}]
    if o == "getdef":
        return [{"op": "get", "k": 0, "type": q[1], "group": q[2], "key": q[3], "def": DEFS[q[1]]}]
    if o == "ext":
        return [{"op": "getExt", "k": 0, "group": q[1], "key": q[2]}]
    if o == "path":
        return [{"op": "getPath", "k": 0}]
    if o == "tags":
        return [{"op": "tags", "k": 0}]
    if o == "write":
        return [{"op": "write", "k": 0, "dir": "$ROOT/out", "name": "q.conf"}]
    if o == "merge_base":
        return [{"op": "merge", "o": 5, "usr": 0, "etc": 1}, {"op": "dump", "k": 5, "ext": False}, {"op": "free", "k": 5}]
    if o == "write_fail":
        return [{"op": "write", "k": 0, "dir": "$ROOT/out", "name": "adir"}]
    if o == "write_nodir":
        return [{"op": "write", "k": 0, "dir": q[1], "name": "nodir.conf"}]
    if o == "merge_self":
        return [{"op": "merge", "o": 5, "usr": 0, "etc": 0}, {"op": "dump", "k": 5, "ext": False}, {"op": "free", "k": 5}]
    if o == "merge_into_own_variable":
        # the result variable still holds the object itself when the call is made; the object is an input, not the result
        return [{"op": "merge", "o": 5, "usr": 0, "etc": 1, "init": "usr"}, {"op": "dump", "k": 5, "ext": False}, {"op": "free", "k": 5},
                {"op": "merge", "o": 5, "usr": 1, "etc": 0, "init": "etc"}, {"op": "dump", "k": 5, "ext": False}, {"op": "free", "k": 5}]
    if o == "merge_over":
        return [{"op": "merge", "o": 5, "usr": 1, "etc": 0}, {"op": "dump", "k": 5, "ext": False}, {"op": "free", "k": 5}]
    raise ValueError(o)


def build_plans(world):
    tree = [{"t": "d", "p": "$ROOT/out"}, {"t": "d", "p": "$ROOT/out/adir"}, {"t": "f", "p": "$ROOT/other.conf", "c": "g=1\n[A]\nk1=o\nzz=2\n[New]\nn=3\n"},
            {"t": "f", "p": "$ROOT/out/snap.conf", "c": "stale=1\n" * 300}]
    ops = []
    D, C = world["D"], world["C"]
    hist_member = None
    if world["src"] == "layered":
        lw = world["layered"]
        tree += gen.tree_plan(lw["nodes"])
        ops += gen.prologue_ops(lw["read"])
        if lw["read"]["ep"] == "readDirsHistory":
            # the object under test is one member of the history
            ops.append(dict(gen.read_op(lw["read"], o=0, ep="readDirsHistory"), tag="ctor"))
            hist_member = world["member"]
        else:
            ops.append(dict(gen.read_op(lw["read"], o=0), tag="ctor"))
    elif world["src"] == "parsed" and world.get("optread") is not None:
        tree.append({"t": "f", "p": "$ROOT/in.conf", "c": grammar.render(world["lines"])})       # for the twin partner
        tree.append({"t": "f", "p": "$ROOT/od/app.conf", "c": grammar.render(world["lines"])})
        opts = "PARSING_DIRS=$ROOT/od" + (";" + world["optread"] if world["optread"] else "")
        ops.append({"op": "newOpts", "o": 0, "options": opts, "tag": "ctor"})
        ops.append({"op": "readConfig", "in": 0, "o": 0, "project": None, "usr_subdir": None, "name": "app", "suffix": "conf", "delim": D, "comment": C, "tag": "ctor"})
    elif world["src"] in ("parsed", "merged"):
        tree.append({"t": "f", "p": "$ROOT/in.conf", "c": grammar.render(world["lines"])})
        ops.append({"op": "readFile", "o": 0, "path": "$ROOT/in.conf", "delim": D, "comment": C, "tag": "ctor"})
        if world["src"] == "merged":
            tree.append({"t": "f", "p": "$ROOT/in2.conf", "c": grammar.render(world["lines2"])})
            ops.append({"op": "readFile", "o": 2, "path": "$ROOT/in2.conf", "delim": D, "comment": C, "tag": "ctor"})
            ops.append({"op": "merge", "o": 3, "usr": 0, "etc": 2, "tag": "ctor"})
            ops.append({"op": "free", "k": 0})
            ops.append({"op": "free", "k": 2})
            # move the merge result to slot 0: re-merge is not possible, so address it as slot 3 below
    else:
        c = world["ctor"]
        ops.append({"op": c, "o": 0, "delim": 61, "comment": 35, "options": None, "tag": "ctor"})
        for s, k, val in world["sets"]:
            ops.append({"op": "set", "k": 0, "type": "String", "group": s, "key": k, "v": val, "tag": "ctor"})
    obj = 3 if world["src"] == "merged" else 0
    if hist_member is not None:
        ops.append({"op": "historyMember", "h": 0, "i": hist_member, "o": 4, "tag": "ctor"})
        obj = 4
    # the partner for merge queries: an unrelated file, or a second object with the SAME sections and keys
    # (so that every key of the object under test meets a key of the other merge input)
    if world.get("partner") == "twin" and world["src"] == "parsed":
        ops.append({"op": "readFile", "o": 1, "path": "$ROOT/in.conf", "delim": D, "comment": C, "tag": "partner"})
    elif world.get("partner") == "twin" and world["src"] == "built":
        ops.append({"op": world["ctor"], "o": 1, "delim": 61, "comment": 35, "options": None, "tag": "partner"})
        for s_, k_, val_ in world["sets"]:
            ops.append({"op": "set", "k": 1, "type": "String", "group": s_, "key": k_, "v": "twin", "tag": "partner"})
    else:
        ops.append({"op": "readFile", "o": 1, "path": "$ROOT/other.conf", "delim": "=", "comment": "#", "tag": "partner"})

    def snapshot(tag):
        return [{"op": "dump", "k": obj, "ext": True, "tag": tag}, {"op": "write", "k": obj, "dir": "$ROOT/out", "name": "snap.conf", "readback": True, "tag": tag + "w"}]
    # the very first observation takes the listings and values BEFORE it asks for tags and path; the regular
    # snapshots ask the other way round - both must agree
    # before anything was asked or written: the object as override and as base of a merge (repeated at the very end)
    # Which of the two comes first alternates by seed: a merge that rearranges its INPUT is visible only if the first
    # write precedes it, a write that rearranges the object only if the first merge precedes it.
    first_merges = [{"op": "merge", "o": 6, "usr": 1, "etc": obj, "need": ["usr", "etc"], "tag": "m_pre"},
                    {"op": "dump", "k": 6, "ext": False, "tag": "m_pre_dump"},
                    {"op": "free", "k": 6},
                    {"op": "merge", "o": 6, "usr": obj, "etc": 1, "need": ["usr", "etc"], "tag": "m_pre"},
                    {"op": "dump", "k": 6, "ext": False, "tag": "m_pre_dump"},
                    {"op": "free", "k": 6}]
    # before anything was asked: what the untouched object writes (the listings below use the getters themselves)
    first_write = [{"op": "write", "k": obj, "dir": "$ROOT/out", "name": "untouched.conf", "readback": True, "tag": "pre"}]
    ops += (first_write + first_merges) if world.get("_seed", 0) % 2 else (first_merges + first_write)
    ops.append({"op": "dump", "k": obj, "ext": True, "order": 1, "tag": "dfirst"})
    ops += snapshot("d0")
    # what a write produces is a function of the object: the same bytes in a file that did not exist before
    ops.append({"op": "write", "k": obj, "dir": "$ROOT/out", "name": "fresh.conf", "readback": True, "tag": "fresh"})
    if world.get("fd_budget"):
        ops.append({"op": "fd_budget", "extra": world["fd_budget"], "tag": "budget"})
    for n, q in enumerate(world["queries"]):
        for e in q_exec(q):
            e = dict(e)
            for f in ("k", "usr", "etc"):
                if e.get(f) == 0:
                    e[f] = obj
            e["tag"] = "q%d" % n
            ops.append(e)
        ops += snapshot("s%d" % n)
    # what a query returns must not depend on the queries made before it: the same queries once more, in
    # reverse order, must give the answers of the first pass
    for n in reversed(range(len(world["queries"]))):
        for e in q_exec(world["queries"][n]):
            e = dict(e)
            for f in ("k", "usr", "etc"):
                if e.get(f) == 0:
                    e[f] = obj
            e["tag"] = "r%d" % n
            ops.append(e)
    ops.append({"op": "merge", "o": 6, "usr": 1, "etc": obj, "need": ["usr", "etc"], "tag": "m_post"})
    ops.append({"op": "dump", "k": 6, "ext": False, "tag": "m_post_dump"})
    ops.append({"op": "free", "k": 6})
    ops.append({"op": "merge", "o": 6, "usr": obj, "etc": 1, "need": ["usr", "etc"], "tag": "m_post"})
    ops.append({"op": "dump", "k": 6, "ext": False, "tag": "m_post_dump"})
    ops.append({"op": "free", "k": 6})
    if hist_member is not None:
        ops.append({"op": "historyMember", "h": 0, "release": 4})
        ops.append({"op": "freeHistory", "h": 0})
    else:
        ops.append({"op": "free", "k": obj})
    ops.append({"op": "free", "k": 1})
    return [{"cfg": world["cfg"], "tree": tree, "ops": ops}]


def check(world, plans, results):
    v = Verdict()
    plan, res = plans[0], results[0]
    if crash_check(v, res, "query history"):
        v.sig = sig_of("crash", v.classes())
        return v
    ops, rs = plan["ops"], res["ops"]
    bytag = {}
    for op, r in zip(ops, rs):
        bytag.setdefault(op.get("tag"), []).append(r)
    ctor = bytag.get("ctor", [])
    if any(r.get("rc", 0) != 0 for r in ctor):
        # the source file is outside what the parser accepts: nothing to query (not this property's concern)
        v.sig = sig_of("ctor-failed", world["src"])
        v.probe("ctor_failed")
        return v
    d0 = canon(strip_volatile(bytag["d0"][0]))
    if canon(strip_volatile(bytag["dfirst"][0])) != d0:
        v.fail("mutated:dump", "two complete listings in a row differ (a tag/path query or a getter inside the listing changed the object): %s" % first_diff(bytag["dfirst"][0], bytag["d0"][0]))
    w0 = canon(strip_volatile(bytag["d0w"][0]))
    if bytag.get("pre") and bytag["pre"][0].get("rc") == 0 and bytag["pre"][0].get("bytes") != bytag["d0w"][0].get("bytes"):
        v.fail("mutated:first-listing", "the object wrote %d bytes before anything was asked and %d bytes after the first complete listing (and, in every second world, the first merges with the object as input)" % (len(bytag["pre"][0].get("bytes") or ""), len(bytag["d0w"][0].get("bytes") or "")))
    if bytag.get("m_pre_dump") and bytag.get("m_post_dump") and canon(strip_volatile(bytag["m_pre_dump"])) != canon(strip_volatile(bytag["m_post_dump"])):
        v.fail("mutated:as-merge-input", "a merge with the object as input gives another result after the queries and writes than before them: %s" % first_diff({"m": bytag["m_pre_dump"]}, {"m": bytag["m_post_dump"]}))
    if bytag.get("fresh") and bytag["fresh"][0].get("bytes") != bytag["d0w"][0].get("bytes"):
        v.fail("written:target", "econf_writeFile over an existing longer file and into a new file produce different bytes (%d vs %d)" % (len(bytag["d0w"][0].get("bytes") or ""), len(bytag["fresh"][0].get("bytes") or "")))
    kinds = set()
    failing = False
    for n, q in enumerate(world["queries"]):
        kinds.add(q[0] + (":" + q[1] if q[0] in ("get", "getdef") else ""))
        for r in bytag.get("q%d" % n, []):
            if isinstance(r.get("rc"), int) and r["rc"] != 0:
                failing = True
        d = canon(strip_volatile(bytag["s%d" % n][0]))
        wv = canon(strip_volatile(bytag["s%dw" % n][0]))
        if d != d0:
            v.fail("mutated:dump", "after query %d %r the object answers differently: %s" % (n, q, first_diff(bytag["d0"][0], bytag["s%d" % n][0])))
            break
        if wv != w0:
            v.fail("mutated:written", "after query %d %r econf_writeFile produces different bytes" % (n, q))
            break
    if not v.violations:
        for n, q in enumerate(world["queries"]):
            a1 = canon(strip_volatile(bytag.get("q%d" % n, [])))
            a2 = canon(strip_volatile(bytag.get("r%d" % n, [])))
            if a1 != a2:
                v.fail("answer:history", "query %d %r answered %s in the first pass and %s when repeated after the other queries" % (n, q, a1[:150], a2[:150]))
                break
    nkeys = len(world["pairs"])
    v.nontrivial = nkeys >= 3 and len(set(k.split(":")[0] for k in kinds)) >= 4 and failing
    v.sig = sig_of(world["src"], grammar.dclass(world["D"]), sorted(kinds), min(nkeys // 3, 5))
    if failing:
        v.probe("failing_getter_in_history")
    if any(q[0] == "get" and q[1] == "Bool" for q in world["queries"]):
        v.probe("bool_getter")
    if any(q[0].startswith("merge") for q in world["queries"]):
        v.probe("used_as_merge_input")
    if world.get("dup_keys"):
        v.probe("key_defined_twice_in_a_section")
    if world.get("fd_budget"):
        v.probe("descriptor_budget_with_failing_writes")
    if world.get("optread") is not None:
        v.probe("object_with_parsing_options_filled_by_a_layered_read")
    if any(p[0] and p[0].startswith("[") for p in world["pairs"]):
        v.probe("bracketed_stored_section_name")
    return v


def first_diff(a, b):
    a, b = strip_volatile(a), strip_volatile(b)

    def walk(x, y, path):
        if type(x) != type(y):
            return "%s: %r -> %r" % (path, x, y)
        if isinstance(x, dict):
            for k in sorted(set(x) | set(y)):
                if x.get(k) != y.get(k):
                    return walk(x.get(k), y.get(k), path + "/" + str(k))
        if isinstance(x, list):
            for i in range(max(len(x), len(y))):
                xi = x[i] if i < len(x) else None
                yi = y[i] if i < len(y) else None
                if xi != yi:
                    return walk(xi, yi, "%s[%d]" % (path, i))
        return "%s: %r -> %r" % (path, x, y)
    return walk(a, b, "")[:300]


def shrink_lists(world):
    out = [("queries",)]
    for k in ("lines", "lines2", "sets"):
        if world.get(k):
            out.append((k,))
    if world.get("layered"):
        out.append(("layered", "nodes"))
    return out
