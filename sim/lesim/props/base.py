# Common pieces of the property modules.
import hashlib
import json

from ..core import classify_crash


class Verdict:
    def __init__(self):
        self.violations = []      # list of dict(oracle=..., msg=...)
        self.known = []           # list of dict(id=..., msg=...)
        self.sig = None           # hashable signature of the abstract state explored
        self.nontrivial = False
        self.probes = {}
        self.obs = {}             # observations outside the properties (never a violation)

    def fail(self, oracle, msg):
        self.violations.append({"oracle": oracle, "msg": msg})

    def known_finding(self, kid, msg):
        self.known.append({"id": kid, "msg": msg})

    def probe(self, name, n=1):
        self.probes[name] = self.probes.get(name, 0) + n

    @property
    def ok(self):
        return not self.violations

    def classes(self):
        return sorted(set(v["oracle"] for v in self.violations))


def sig_of(*parts):
    return hashlib.sha1(json.dumps(parts, sort_keys=True, default=str).encode()).hexdigest()[:12]


def tagged(plan, res, tag, which="ops"):
    """result of the op carrying tag `tag` (first match); a plan split into prologue (main thread), ops
    (worker thread) and epilogue (main thread) is searched in that order"""
    parts = (which,) if which != "ops" or not ("prologue" in plan or "epilogue" in plan) else ("prologue", "ops", "epilogue")
    for part in parts:
        ops = plan.get(part, [])
        rs = res.get(part, [])
        for i, op in enumerate(ops):
            if op.get("tag") == tag and i < len(rs):
                return rs[i]
    return None


def all_tagged(plan, res, tag, which="ops"):
    ops = plan.get(which, [])
    rs = res.get(which, [])
    return [rs[i] for i, op in enumerate(ops) if op.get("tag") == tag and i < len(rs)]


def crash_check(v, res, what=""):
    """memory-safety / termination oracle shared by all properties: the executor must
    have survived the plan.  Returns True when the plan crashed."""
    if res.get("fatal"):
        cls = classify_crash(res) if res["fatal"] in ("crash", "step_budget") else "executor:" + str(res["fatal"])
        v.fail("crash:" + cls, "%s: executor died (%s)" % (what, cls))
        return True
    return False


RC_MAX = 24


def rc_in_enum(rc):
    return isinstance(rc, int) and 0 <= rc <= RC_MAX


def leak_check(v, res, what=""):
    led = res.get("ledger")
    if not led:
        return
    if led.get("released_behind_wrappers"):
        # blocks the ledger saw allocated and the sanitizer says are gone: a release path the file layer does not see
        v.obs["blocks_released_behind_the_wrappers"] = v.obs.get("blocks_released_behind_the_wrappers", 0) + len(led["released_behind_wrappers"])
    if led.get("leak_count"):
        sites = sorted(set("%s/%d" % (l["fn"], l["size"]) for l in led["leaks"]))
        v.fail("leak", "%s: %d allocation(s) (%d bytes) made by the library were never released: %s" % (what, led["leak_count"], led["leak_bytes"], sites[:6]))
    if led.get("open_files"):
        v.fail("leak:file", "%s: stream(s) left open: %s" % (what, led["open_files"][:4]))


def cb_paths(res, op_index=None, task=0):
    """sequence of (path, accepted) the callback saw, in order"""
    out = []
    for t, op, what, path, r, e in res.get("events", []):
        if what in ("cb_accept", "cb_reject") and (op_index is None or op == op_index):
            out.append((path, what == "cb_accept", r == 1))
    return out
