# C11 - the set/get/list API behaves as an ordered map from (section, key) to text.
from .. import gen
from ..models import OrderedMap, render_plain, nz
from .base import Verdict, sig_of, crash_check

ID = "C11"
LEVEL = "exploration"
RUNS = (60000, 1200000)
RULE = ("one seeded history of 3-60 create/set/get/get-default/list calls over 7 sections x 7 keys (incl. names that differ only in case or are prefixes of each other) on an object from one of four "
        "constructors (or a parsed plain-profile file with duplicate keys), checked call by call against an ordered-map model; "
        "non-trivial = history with at least one overwrite, one lookup miss and growth past the 8 pre-allocated entries or past the "
        "parsed length; distinct = distinct (constructor, op-kind sequence class, #entries, #sections, overwrite/miss/growth flags)")

SECS = ["s1", "s2", "Sec 3", "x", "S", "s", "s1x", "_oNne_", "[x", "x]", "[", "]"]      # a bracket on ONE side only belongs to the name        # incl. names that differ only in case / are prefixes of each other
KEYS = ["a", "b", "key c", "d", "E", "A", "ab", "_nooD_"]       # the last one: same djb2 hash as the reserved placeholder text, but another text
NOOBJ = 99
LONG = ["L" * 300, "x" * 1100 + " y", "seg " * 600, "k" * 2500]
VALS = LONG + ["\"quoted text\"", "\"\"", "\"", "'single'", "\"a\" and \"b\"", "caf\xe9", "100%", "%s%n%d", "back\\slash\\", "ff\x0cvt\x0bcr\rmid", "", "v", "hello world", " padded ", "a=b", "# not a comment", "\"q\"", "[x]", "1", "true", "0x10", "multi\nline", "tab\there", "Yes Please"]


def spell(rng, s):
    if s is None:
        return rng.pick([None, "", None, "", "[]"])      # brackets around the empty name: still the empty name
    if "[" in s or "]" in s:
        return s          # a name that itself contains a bracket is only used literally (what "[[x]" or "[]]" denote is not defined)
    return rng.pick([s, s, "[%s]" % s])


def gen_world(rng, i, tier):
    ctor = rng.pick(["newKeyFile", "newIniFile", "newOpts", "parsed", "newKeyFile"])
    w = {"kind": "map", "ctor": ctor, "cfg": gen.io_cfg(rng), "ops": []}
    if ctor == "parsed":
        ents = []
        for s in [None] + rng.subset(SECS, 0, 3):
            for k in rng.subset([k for k in KEYS if " " not in k], 0 if s is None else 1, 4):
                ents.append([s, k, "p%d" % len(ents) if rng.chance(0.85) else None])     # None: "key=" - an entry without text
                if ents[-1][2] is not None and rng.chance(0.25):
                    ents[-1] = [s, k, rng.pick(["q%d", " q%d ", "q # %d", "q = %d"]) % len(ents), "q"]     # written in double quotes in the file
                if rng.chance(0.15):
                    ents.append([s, k, "dup%d" % len(ents)])      # duplicate key: lookups see the first
        w["file"] = ents
    n = rng.pick([3, 8, 15, 25, 40, 60])
    uni_s = [None] + rng.subset(SECS, 1, 5)
    if rng.chance(0.06):
        uni_s = [None] + ["m%02d" % k for k in range(rng.pick([9, 16, 17, 33]))]     # section list past its allocation steps
        n = max(n, 40)
    uni_k = rng.subset(KEYS, 1, 5)
    if rng.chance(0.08):
        uni_k = uni_k + rng.subset(["t ", " l", "tab\t", "t", "l"], 2, 4)     # a key is any non-empty text: outer blanks belong to it
    if rng.chance(0.05):
        uni_k = uni_k + ["K" * rng.pick([200, 1030, 3000, 8191, 8192, 8193, 20000])]      # long key and section names, also around BUFSIZ
        uni_s = uni_s + ["S" * rng.pick([200, 1030, 3000, 8191, 8192, 8193, 20000])]
    uid = 0
    have = set((e[0], e[1]) for e in w.get("file", []))
    for _ in range(n):
        r = rng.random()
        s = rng.pick(uni_s)
        k = rng.pick(uni_k)
        if r < 0.04 and (s, k) in have:
            # a value the boolean setter refuses, on a key that exists: error code, nothing changes
            w["ops"].append(["set_badbool", spell(rng, s), k, rng.pick(["maybe", "2", "tru", "yes please", "on", "falsehood", "False positives", "truest", "noon", "yess", "11", "false ", "TRUE\n"])])
            continue
        if r < 0.40:
            have.add((s, k))
            ty = rng.pick(["String"] * 5 + ["Int", "Int64", "UInt", "UInt64", "Bool", "Float", "Double"])
            uid += 1
            if ty == "String":
                val = rng.pick(VALS + ["u%d" % uid] * 6 + [None])
            elif ty == "Int":
                val = rng.pick([0, 1, -1, 2147483647, -2147483648, rng.randrange(-10**6, 10**6)])
            elif ty == "Int64":
                val = rng.pick([0, -1, 2**63 - 1, -2**63, rng.randrange(-10**12, 10**12)])
            elif ty == "UInt":
                val = rng.pick([0, 1, 2**32 - 1, rng.randrange(0, 10**6)])
            elif ty == "UInt64":
                val = rng.pick([0, 2**64 - 1, rng.randrange(0, 10**15)])
            elif ty == "Bool":
                val = rng.pick(["true", "false", "yes", "no", "1", "0", "TRUE", "No", "YES"])
            elif ty == "Float":
                val = rng.pick([0.0, 1.5, -2.25, 1e10, 3.0, 3.4028234663852886e+38, -3.4028234663852886e+38, 1.1754943508222875e-38, -1.00000001e-30, 16777217.0])
            else:
                val = rng.pick([0.0, 1.5, -2.25, 1e10, 3.0, 1.7976931348623157e+308, -1.7976931348623157e+308, 2.2250738585072014e-308, -2.2250738585072014e-308,
                                -1.2345678901234567e+100, 1.2345678901234567e-100, 0.1, -123456789.12345678])
                # (subnormal values are left out: reading them back is refused with a conversion error today,
                #  which is C08/C09's subject, not this property's)
            w["ops"].append(["set", ty, spell(rng, s), k, val])
        elif r < 0.60:
            w["ops"].append(["get", spell(rng, s), k])
        elif r < 0.75:
            ty = rng.pick(["String", "String", "Int", "Int64", "UInt", "UInt64", "Bool", "Float", "Double"])
            d = {"String": "dflt%d" % uid, "Int": -7, "Int64": -7000000000, "UInt": 7, "UInt64": 7000000000, "Bool": rng.chance(0.5), "Float": 2.5, "Double": -0.125}[ty]
            w["ops"].append(["getdef", ty, spell(rng, s), k, d])
        elif r < 0.83:
            w["ops"].append(["keys", rng.pick([s, s, None, ""]) if s is not None else rng.pick([None, ""])])
        elif r < 0.90:
            w["ops"].append(["groups"])
        else:
            w["ops"].append(rng.pick([["set_nokey", spell(rng, s), rng.pick([None, ""])], ["set_noobj", spell(rng, s), k], ["get_nokey", spell(rng, s), rng.pick([None, ""])],
                                      ["get_noobj", spell(rng, s), k], ["keys_noobj"], ["groups_noobj"], ["getdef_noobj", spell(rng, s), k],
                                      ["getdef_nokey", rng.pick(["Int", "UInt64", "Bool", "Double"]), spell(rng, s), rng.pick([None, ""])]]))
    return w


def to_exec(a):
    o = a[0]
    if o == "set":
        return {"op": "set", "k": 0, "type": a[1], "group": a[2], "key": a[3], "v": a[4]}
    if o == "get":
        return {"op": "get", "k": 0, "type": "String", "group": a[1], "key": a[2]}
    if o == "getdef":
        return {"op": "get", "k": 0, "type": a[1], "group": a[2], "key": a[3], "def": a[4]}
    if o == "keys":
        return {"op": "getKeys", "k": 0, "group": a[1]}
    if o == "groups":
        return {"op": "getGroups", "k": 0}
    if o == "set_badbool":
        return {"op": "set", "k": 0, "type": "Bool", "group": a[1], "key": a[2], "v": a[3]}
    if o == "set_nokey":
        return {"op": "set", "k": 0, "type": "String", "group": a[1], "key": a[2], "v": "zz"}
    if o == "set_noobj":
        return {"op": "set", "k": NOOBJ, "type": "String", "group": a[1], "key": a[2], "v": "zz"}
    if o == "get_nokey":
        return {"op": "get", "k": 0, "type": "String", "group": a[1], "key": a[2]}
    if o == "get_noobj":
        return {"op": "get", "k": NOOBJ, "type": "String", "group": a[1], "key": a[2]}
    if o == "getdef_noobj":
        return {"op": "get", "k": NOOBJ, "type": "String", "group": a[1], "key": a[2], "def": "d"}
    if o == "getdef_nokey":
        return {"op": "get", "k": 0, "type": a[1], "group": a[2], "key": a[3], "def": {"Int": -7, "UInt64": 7000000000, "Bool": True, "Double": -0.125}[a[1]]}
    if o == "keys_noobj":
        return {"op": "getKeys", "k": NOOBJ, "group": None}
    if o == "groups_noobj":
        return {"op": "getGroups", "k": NOOBJ}
    raise ValueError(o)


def build_plans(world):
    ops = []
    tree = []
    c = world["ctor"]
    if c == "newKeyFile":
        ops.append({"op": "newKeyFile", "o": 0, "delim": 61, "comment": 35})
    elif c == "newIniFile":
        ops.append({"op": "newIniFile", "o": 0})
    elif c == "newOpts":
        ops.append({"op": "newOpts", "o": 0, "options": None})
    else:
        tree.append({"t": "f", "p": "$ROOT/in.conf", "c": render_plain([(e[0], e[1], "" if e[2] is None else ('"%s"' % e[2] if len(e) > 3 else e[2])) for e in world.get("file", [])])})
        ops.append({"op": "readFile", "o": 0, "path": "$ROOT/in.conf", "delim": "=", "comment": "#"})
    for a in world["ops"]:
        ops.append(dict(to_exec(a), tag="h"))
        if a[0] == "set" and a[1] != "String":
            ops.append({"op": "get", "k": 0, "type": "String", "group": a[2], "key": a[3], "tag": "learn"})
            if a[1] != "Bool":
                ops.append({"op": "get", "k": 0, "type": a[1], "group": a[2], "key": a[3], "tag": "typed"})
    ops.append({"op": "dump", "k": 0, "ext": False, "tag": "final"})
    ops.append({"op": "free", "k": 0})
    return [{"cfg": world["cfg"], "tree": tree, "ops": ops}]


def expected_text(ty, val):
    if ty == "String":
        return "" if val is None else val
    if ty in ("Int", "Int64", "UInt", "UInt64"):
        return str(val)
    if ty == "Bool":
        return "true" if val.lower() in ("true", "yes", "1") else "false"
    return None      # floats: learned


def check(world, plans, results):
    v = Verdict()
    plan, res = plans[0], results[0]
    if crash_check(v, res, "map history"):
        v.sig = sig_of("crash", v.classes())
        return v
    rs = res["ops"]
    if rs[0]["rc"] != 0:
        v.fail("ctor", "constructor %s failed with %r" % (world["ctor"], rs[0]["rc"]))
        return v
    m = OrderedMap(world.get("file", []) if world["ctor"] == "parsed" else [])
    was_set = set()
    base_len = len(m.entries)
    flags = {"overwrite": False, "miss": False, "growth": False}
    ri = 1
    kinds = []
    for n, a in enumerate(world["ops"]):
        r = rs[ri]
        ri += 1
        o = a[0]
        kinds.append(o)
        where = "op %d %r" % (n, a)
        if o == "set":
            ty, g, k, val = a[1], a[2], a[3], a[4]
            learn = None
            typed = None
            if ty != "String":
                learn = rs[ri]
                ri += 1
                if ty != "Bool":
                    typed = rs[ri]
                    ri += 1
            if r["rc"] != 0:
                v.fail("set:rc", "%s: setter failed with %r" % (where, r["rc"]))
                continue
            if m.find(g, k) is not None:
                flags["overwrite"] = True
            text = expected_text(ty, val)
            if text is None:
                if learn is None or learn["rc"] != 0:
                    v.fail("set:learn", "%s: value not readable right after a typed set (%r)" % (where, learn))
                    continue
                text = nz(learn.get("v"))
            elif learn is not None and (learn["rc"] != 0 or nz(learn.get("v")) != text):
                v.fail("set:text", "%s: string getter reports %r right after the typed set, expected %r" % (where, learn, text))
            if typed is not None:
                # the matching typed getter returns the value last set
                import struct
                got = typed.get("v")
                if ty in ("Int", "Int64", "UInt", "UInt64"):
                    okv = typed["rc"] == 0 and got == val
                elif ty == "Float":
                    okv = typed["rc"] == 0 and isinstance(got, dict) and got["bits"] == struct.unpack("<I", struct.pack("<f", val))[0]
                else:
                    okv = typed["rc"] == 0 and isinstance(got, dict) and got["bits"] == struct.unpack("<Q", struct.pack("<d", val))[0]
                if not okv:
                    v.fail("set:typed", "%s: the matching typed getter returns %r (stored text %r) right after the set" % (where, typed, text))
            m.set(g, k, text)
            was_set.add(id(m.find(g, k)))
            if len(m.entries) > max(8, base_len):
                flags["growth"] = True
        elif o == "get":
            e = m.find(a[1], a[2])
            if e is None:
                flags["miss"] = True
                if r["rc"] != 5:
                    v.fail("get:miss", "%s: lookup of an absent key returned %r (value %r) instead of key-not-found" % (where, r["rc"], r.get("v")))
            elif r["rc"] != 0 or nz(r.get("v")) != nz(e[2]):
                v.fail("get:value", "%s: expected %r, got rc=%r value=%r" % (where, e[2], r["rc"], r.get("v")))
            elif (id(e) in was_set) and r.get("v") is None:
                # an entry read from a file may have no text at all; after a set it has exactly the text set
                v.fail("get:null-after-set", "%s: the key was set to %r but the getter hands back a NULL pointer" % (where, e[2]))
        elif o == "getdef":
            ty, g, k, d = a[1], a[2], a[3], a[4]
            if r.get("out_is_default"):
                v.fail("getdef:touched", "%s: the call failed with %r, the key is not absent, and yet the caller's result variable holds the default (it is delivered exactly when the key is absent)" % (where, r["rc"]))
            e = m.find(g, k)
            if e is None:
                flags["miss"] = True
                got = r.get("v")
                if ty in ("Float", "Double") and isinstance(got, dict):
                    got = float(got["s"])
                if r["rc"] != 5 or got != d:
                    v.fail("getdef:default", "%s: absent key must yield the default %r with key-not-found, got rc=%r value=%r" % (where, d, r["rc"], r.get("v")))
            else:
                if ty == "String":
                    if r["rc"] != 0 or nz(r.get("v")) != nz(e[2]):
                        v.fail("getdef:value", "%s: present key: expected %r, got rc=%r value=%r" % (where, e[2], r["rc"], r.get("v")))
                elif r["rc"] == 0:
                    # a present key never yields the default by accident: compare with the stored text where that is unambiguous
                    if ty in ("Int", "Int64", "UInt", "UInt64") and isinstance(e[2], str) and e[2].lstrip("-").isdigit() and not (len(e[2].lstrip("-")) > 1 and e[2].lstrip("-")[0] == "0"):
                        val = int(e[2])
                        lim = {"Int": (-2**31, 2**31 - 1), "Int64": (-2**63, 2**63 - 1), "UInt": (0, 2**32 - 1), "UInt64": (0, 2**64 - 1)}[ty]
                        if lim[0] <= val <= lim[1] and r.get("v") != val:
                            v.fail("getdef:value", "%s: present key with text %r read as %r" % (where, e[2], r.get("v")))
                elif r["rc"] == 5:
                    v.fail("getdef:present", "%s: key is present (text %r) but the defaulted getter reported key-not-found" % (where, e[2]))
        elif o == "keys":
            exp = m.keys(a[1])
            if not exp:
                if r["rc"] == 0 and r.get("v"):
                    v.fail("keys", "%s: expected no keys, got %r" % (where, r.get("v")))
                elif r["rc"] not in (0, 5):
                    v.fail("keys:rc", "%s: unexpected code %r for an empty listing" % (where, r["rc"]))
            elif r["rc"] != 0 or r.get("v") != exp:
                v.fail("keys", "%s: expected %r, got rc=%r %r" % (where, exp, r["rc"], r.get("v")))
            elif not r.get("terminated", True):
                v.fail("keys:term", "%s: key array is not NULL terminated" % where)
        elif o == "groups":
            if not m.secs:
                if not (r["rc"] == 4 or (r["rc"] == 0 and not r.get("v"))):
                    v.fail("groups", "%s: object without sections: got rc=%r %r" % (where, r["rc"], r.get("v")))
            elif r["rc"] != 0 or r.get("v") != m.secs:
                v.fail("groups", "%s: expected %r, got rc=%r %r" % (where, m.secs, r["rc"], r.get("v")))
        elif o == "set_badbool":
            if r.get("rc", 1) == 0:
                v.fail("refusal", "%s: a text that is no boolean was accepted by the boolean setter" % where)
            flags["refused_on_existing"] = True
        else:
            if r.get("rc", 1) == 0:
                v.fail("refusal", "%s: call without object / without key returned success" % where)
            if r.get("out_changed"):
                v.fail("refusal:effect", "%s: the refused call changed the caller's result variable" % where)
    # final listing: the whole model
    fin = rs[ri]
    from ..models import dump_to_conf
    got, secs = dump_to_conf(fin)
    exp_entries = [(e[0], e[1], nz(e[2])) for e in m.entries]
    got_entries = [(s, k, nz(t)) for s, k, t in got.entries]
    # the dump lists group-less first, then per section: compare per section in order
    for sec in [None] + m.secs:
        ek = [k for s, k, _ in exp_entries if s == sec]
        gk = got.keys(sec)
        if ek != gk:
            v.fail("final:keys", "final listing of section %r: expected keys %r, got %r" % (sec, ek, gk))
    em = {}
    for s, k, t in exp_entries:
        em.setdefault((s, k), t)
    gm = {k: nz(t) for k, t in got.map().items()}
    if em != gm and v.ok:
        v.fail("final:values", "final values differ: expected %r, got %r" % (sorted(em.items(), key=str)[:6], sorted(gm.items(), key=str)[:6]))
    if m.secs and secs != m.secs:
        v.fail("final:sections", "final section listing: expected %r, got %r" % (m.secs, secs))
    if not m.secs and secs:
        v.fail("final:sections", "final section listing: expected none, got %r" % secs)
    v.nontrivial = flags["overwrite"] and flags["miss"] and flags["growth"]
    klass = tuple(sorted(set(kinds)))
    v.sig = sig_of(world["ctor"], klass, min(len(m.entries), 20), len(m.secs), flags, len(world["ops"]) // 10)
    for k, f in flags.items():
        if f:
            v.probe(k)
    if flags["growth"]:
        v.probe("growth_past_prealloc")
    return v


def shrink_lists(world):
    out = [("ops",)]
    if world.get("file"):
        out.append(("file",))
    return out
