# C16 - owner, group and symlink restrictions gate every file of every read.
import copy

from .. import gen
from ..core import canon, strip_volatile, Rng
from ..models import Tree, norm
from .base import Verdict, sig_of, tagged, crash_check
from .c06 import empty_dump

ID = "C16"
LEVEL = "fault_enumeration"
RUNS = (4000, 50000)
RULE = ("one seeded small tree (or single file) read through one of the eight read entry points while a seeded combination of "
        "{required owner, required group, no symlinks} is in force; exactly one consulted file is made offending, at EVERY position "
        "in turn and for EVERY active rule (complete single-fault enumeration per tree), plus one plan with seeded independent "
        "attributes on all files; every plan reads once restricted, calls the reset, and reads again; "
        "non-trivial = >= 2 consulted files and >= 1 active rule; distinct = distinct (entry point, active rule set, offending "
        "rule, position class, masked/main role) per execution")

CODE = {"owner": 16, "group": 17, "symlink": 20}
FOREIGN_U, FOREIGN_G = 4343, 4444
NOID = 2**32 - 1
EPS = ["readFile", "readFileCb", "readDirs", "readDirsCb", "readDirsHistory", "readDirsHistoryCb", "readConfig", "readConfigCb"]


def gen_world(rng, i, tier):
    w = gen.gen_layered_world(rng, i, small=True, allow_refuse=False, allow_dotdot=True)
    if rng.chance(0.12):
        gen.single_file_world(rng, w)
    read = w["read"]
    if read["ep"] == "readFile":
        w["ep"] = rng.pick(["readFile", "readFileCb"])
    elif read["ep"] == "readDirs":
        w["ep"] = rng.pick(["readDirs", "readDirsCb", "readDirsHistory", "readDirsHistoryCb"])
    else:
        w["ep"] = rng.pick(["readConfig", "readConfigCb"])
    w["rules"] = rng.pick([["owner"], ["group"], ["symlink"], ["owner", "group"], ["owner", "symlink"], ["group", "symlink"], ["owner", "group", "symlink"], []])
    # (uid_t)-1 / (gid_t)-1 are ids like any other for the requirement: no file has them, so every file offends
    w["req_uid"] = rng.pick([0, 4242, 0, 4242, 0, 4242, NOID])
    w["req_gid"] = rng.pick([0, 4141, 0, 4141, 0, 4141, NOID])
    w["setter_history"] = rng.pick(["plain", "set-reset-set", "other-first", "allow-symlinks-explicit", "forbid-then-allow", "allow-first"])
    w["attr_seed"] = rng.getrandbits(32)
    # additionally a permission-mask requirement that every file and directory of the tree satisfies
    w["perms"] = rng.pick([None, None, None, [0o400, 0o500], [0o444, 0o111]])
    w["init"] = rng.pick(["null", "sentinel"])
    # the restrictions are process-wide: set by the main thread, they bind a read made by another thread
    w["worker_thread"] = rng.chance(0.2)
    # the caller's callback may itself use the library (a policy tree whose files do NOT satisfy the rules: its own read is
    # refused, which is the callback's business and not the outer read's)
    w["nested"] = rng.chance(0.2)
    w["read"].pop("satisfied", None)
    # /dev/null links inside the tree are symbolic links and would offend the no-symlink rule by themselves:
    # keep them only when that rule is not active so that the enumeration stays single-fault
    # stale links of the tree generator (a main-file position that cannot be opened) are looked at and checked like files;
    # here exactly one offender per plan is wanted, so they become empty files (the dangling offender is a variant of its own)
    for n in w["nodes"]:
        if n["t"] == "l" and n.get("to") != "/dev/null" and n["p"] != "$ROOT/cur":
            n["t"] = "f"
            n["entries"] = []
            n.pop("to", None)
    if "symlink" in w["rules"]:
        cons = set(consulted_of(w, seen=False))
        for n in w["nodes"]:
            if n["p"] == "$ROOT/cur":
                continue          # the directory link through which a dotdot world is reached (never a consulted file)
            if n["t"] == "l" and (norm(n["p"]) in cons or n.get("to") != "/dev/null"):
                n["t"] = "f"
                n["entries"] = []
                n.pop("to", None)
            elif n["t"] == "f" and norm(n["p"]) not in cons and rng.chance(0.5):
                # directory members that are NOT consulted (no suffix, other name) may be links: they are no business of the rule
                n["t"] = "l"
                n["to"] = "/dev/null"
                n.pop("entries", None)
    return w


def consulted_of(world, seen=True):
    """everything the read looks at in order: the consulted files and, between them, sub-directories that carry the
    suffix (they are checked like the files next to them)"""
    read = world["read"]
    if read["ep"] == "readFile":
        return [read["path"]]
    m = gen.model_of(world)
    return [] if m is None else (m["seen"] if seen else m["consulted"])


def is_subdir(world, p):
    return any(n["t"] == "d" and n.get("sub") and norm(n["p"]) == p for n in world["nodes"])


def variants(world):
    """list of (label, {path: set(offences)})"""
    cons = consulted_of(world)
    out = [("clean", {})]
    for k in gen.enum_positions(len(cons), world["attr_seed"]):
        p = cons[k]
        for r in world["rules"]:
            if r == "symlink" and is_subdir(world, p):
                continue          # a directory cannot be made the link itself here
            out.append(("%s@%d" % (r, k), {p: [r]}))
    r = Rng(world["attr_seed"])
    rnd = {}
    for p in cons:
        o = [x for x in ("owner", "group", "symlink") if r.chance(0.25)]
        if is_subdir(world, p):
            o = [x for x in o if x != "symlink"]
        if o:
            rnd[p] = o
    out.append(("random", rnd))
    files = [p_ for p_ in cons if not is_subdir(world, p_)]
    if files and world["rules"]:
        # the offending file is a symbolic link that leads nowhere: it cannot be opened, but it is looked at
        # (and refused) all the same
        p = files[r.randrange(len(files))]
        rule = r.pick(world["rules"])
        out.append(("dangling-%s@%d" % (rule, cons.index(p)), {p: [x for x in ("owner", "group", "symlink") if x == rule or (x == "symlink" and "symlink" in world["rules"])], "__dangling__": [p]}))
    return out


def nodes_for(world, offences):
    nodes = []
    n_t = 0
    for n in copy.deepcopy(world["nodes"]):
        p = norm(n["p"])
        off = offences.get(p, [])
        if n["t"] != "d" or n.get("sub"):
            n["uid"] = FOREIGN_U if "owner" in off else world["req_uid"]
            n["gid"] = FOREIGN_G if "group" in off else world["req_gid"]
        if p in offences.get("__dangling__", []):
            nodes.append({"p": n["p"], "t": "l", "to": "$ROOT/targets/nowhere.conf", "uid": n.get("uid", world["req_uid"]), "gid": n.get("gid", world["req_gid"])})
            continue
        if "symlink" in off and n["t"] == "f":
            n_t += 1
            earlier = [q for q in consulted_of(world, seen=False)[:max(0, consulted_of(world, seen=False).index(p))] if q != p] if p in consulted_of(world, seen=False) else []
            earlier = [q for q in earlier if any(m_["t"] == "f" and norm(m_["p"]) == q for m_ in world["nodes"])]
            single = len(offences) == 1 and list(offences.values())[0] == ["symlink"]      # the enumerated plan "symlink@k"
            if earlier and single and "symlink" in world["rules"] and (world.get("attr_seed", 0) + n_t) % 2 == 0:
                # ... a second name of a file that the same read has already consulted
                n = {"p": n["p"], "t": "l", "to": earlier[-1], "uid": n["uid"], "gid": n["gid"]}
            else:
                tgt = dict(n)
                tgt["p"] = "$ROOT/targets/t%d.conf" % n_t
                nodes.append(tgt)
                n = {"p": n["p"], "t": "l", "to": tgt["p"], "uid": n["uid"], "gid": n["gid"]}
        nodes.append(n)
    return nodes


def security_ops(world):
    ops = []
    rules = world["rules"]

    def setters():
        o = []
        if "owner" in rules:
            o.append({"op": "security", "what": "owner", "v": world["req_uid"]})
        if "group" in rules:
            o.append({"op": "security", "what": "group", "v": world["req_gid"]})
        if "symlink" in rules:
            o.append({"op": "security", "what": "symlinks", "v": False})
        if world.get("perms") and rules:
            o.insert(len(o) // 2, {"op": "security", "what": "perms", "file": world["perms"][0], "dir": world["perms"][1]})
        return o
    h = world["setter_history"]
    allow = {"op": "security", "what": "symlinks", "v": True}
    forbid = {"op": "security", "what": "symlinks", "v": False}
    if h == "allow-symlinks-explicit" and "symlink" not in rules:
        return setters() + [allow]                 # stating the default after the other restrictions
    if h == "forbid-then-allow" and "symlink" not in rules:
        s_ = setters()
        return s_[:1] + [forbid] + s_[1:] + [allow]    # links forbidden for a while, then allowed again
    if h == "allow-first":
        return [allow] + setters()
    if h == "set-reset-set":
        ops += setters() + [{"op": "security", "what": "reset"}]
    elif h == "other-first":
        ops += [{"op": "security", "what": "owner", "v": 777}, {"op": "security", "what": "group", "v": 778}, {"op": "security", "what": "symlinks", "v": False},
                {"op": "security", "what": "reset"}]
    ops += setters()
    return ops


def first_offender(world, off, cons):
    """which consulted file offends an ACTIVE rule first?  (path, [rules]) or None"""
    for p in cons:
        o = list(off.get(p, []))
        if world["req_uid"] == NOID and "owner" not in o:
            o.append("owner")
        if world["req_gid"] == NOID and "group" not in o:
            o.append("group")
        active = [r for r in o if r in world["rules"]]
        if active:
            return (p, active)
    return None


def one_plan(world, offences, restricted):
    read = dict(world["read"])
    ep = world["ep"]
    cbv = ep.endswith("Cb")
    read["ep"] = ep[:-2] if cbv else ep
    pro = gen.prologue_ops(read)
    if restricted:
        pro += security_ops(world)
    cb1 = None
    if cbv:
        from . import c06 as _c06
        cb1 = {"nested": _c06.POLICY} if world.get("nested") else {}
        fo = first_offender(world, offences, consulted_of(world)) if restricted else None
        if fo and not world.get("nested") and (world.get("attr_seed", 0) >> 3) % 3 == 0:
            # the caller's check would veto the very file that offends the rule: the rule comes first, the specific
            # code is reported and the callback is not asked about that file
            cb1 = {"reject_norm": [fo[0]], "reject_spelled": [gen.rel(read, fo[0])]}
    r1 = gen.layered_read_ops(read, cb=cb1, init=world["init"])
    for o in r1:
        if "tag" in o:
            o["tag"] += "1"
    epi = [{"op": "security", "what": "reset"}]
    r2 = gen.layered_read_ops(read, cb={} if cbv else None, init=world["init"])
    for o in r2:
        if "tag" in o:
            o["tag"] += "2"
    epi += r2
    tree = gen.tree_plan(nodes_for(world, offences))
    if cbv and world.get("nested"):
        from . import c06 as _c06
        tree += [dict(n_, uid=FOREIGN_U, gid=FOREIGN_G) for n_ in _c06.POLICY_NODES]
    if world.get("worker_thread"):
        # setters and reset on the main thread, the restricted read on a second thread
        return {"cfg": dict(world["cfg"], stack_kb=8192), "tree": tree, "prologue": pro, "ops": r1, "epilogue": epi}
    return {"cfg": world["cfg"], "tree": tree, "ops": pro + r1 + epi}


def build_plans(world):
    plans = [one_plan(world, {}, False)]
    for label, off in variants(world):
        plans.append(one_plan(world, off, True))
    return plans


def drop_paths(d):
    if isinstance(d, dict):
        return {k: drop_paths(x) for k, x in d.items() if k not in ("path", "file")}
    if isinstance(d, list):
        return [drop_paths(x) for x in d]
    return d


def view(d):
    return canon(strip_volatile(d))


def check(world, plans, results):
    v = Verdict()
    for k, res in enumerate(results):
        if crash_check(v, res, "plan %d" % k):
            v.sig = sig_of("crash", v.classes())
            return v
    cons = consulted_of(world)
    base = results[0]
    b_rc = tagged(plans[0], base, "read1")["rc"]
    b_dump = view(tagged(plans[0], base, "dump1"))
    model = gen.model_of(world) if world["read"]["ep"] != "readFile" else None
    sigs = set()
    for k, (label, off) in enumerate(variants(world), start=1):
        plan, res = plans[k], results[k]
        r1, r2 = tagged(plan, res, "read1"), tagged(plan, res, "read2")
        first = first_offender(world, off, cons)
        if first is None:
            if r1["rc"] != b_rc or (b_rc == 0 and view(tagged(plan, res, "dump1")) != b_dump):
                v.fail("conforming", "plan %s: all files satisfy the active rules %r but the restricted read returns rc=%r (unrestricted: %r) or different content" % (label, world["rules"], r1["rc"], b_rc))
            elif model is not None and label == "clean" and not world["ep"].startswith("readDirsHistory"):
                # "read as usual": the files that were CHECKED are the files whose content is returned (layered-lookup model;
                # the known finding D7 of C01 is not this property's business and is dropped here)
                from . import c01 as _c01m
                kn = len(v.known)
                _c01m.compare_with_model(v, world, r1["rc"], tagged(plan, res, "dump1"), res, None, oracle_prefix="as-usual")
                del v.known[kn:]
        else:
            p, active = first
            if r1["rc"] not in [CODE[r] for r in active]:
                v.fail("gate:rc", "plan %s: %s offends %r while %r is in force, but the read through %s returned %r" % (label, p, active, world["rules"], world["ep"], r1["rc"]))
            if r1["out"] == "obj":
                if world["ep"].startswith("readDirsHistory"):
                    v.fail("gate:content", "plan %s: a history was handed back although %s offends %r" % (label, p, active))
                elif not empty_dump(tagged(plan, res, "dump1")):
                    v.fail("gate:content", "plan %s: content was handed back although %s offends %r" % (label, p, active))
            idx = cons.index(p)
            posc = "main" if model and p == model["main"] else ("last" if idx == len(cons) - 1 else ("first" if idx == 0 else "middle"))
            sigs.add((world["ep"], tuple(world["rules"]), tuple(active), posc, bool(model and p in model["masked"])))
            if model and p in model["masked"]:
                v.probe("offender_is_masked_dropin")
            if idx == len(cons) - 1 and len(cons) > 1:
                v.probe("offender_is_last_file")
        if "__dangling__" in off:
            v.probe("offender_is_a_dangling_link")
            continue        # the tree itself differs from the clean one: nothing to compare after the reset
        if len(off) == 1 and list(off.values())[0] == ["symlink"]:
            continue        # the link may lead to ANOTHER consulted file (a second name): followed after the reset, it shows that file's content
        # after the reset every file is accepted again
        if r2["rc"] != b_rc or (b_rc == 0 and view(tagged(plan, res, "dump2")) != b_dump):
            v.fail("reset", "plan %s: after econf_reset_security_settings the read returns rc=%r (unrestricted: %r) or different content" % (label, r2["rc"], b_rc))
    v.nontrivial = len(cons) >= 2 and len(world["rules"]) >= 1
    from . import c01 as _c01
    tsig = _c01.layered_signature(world, model) if model else "single"
    v.sig = sig_of(world["ep"], world["rules"], sorted(sigs), min(len(cons), 5), tsig, world["setter_history"])
    v.probe("executions", len(results))
    if world["setter_history"] != "plain":
        v.probe("setter_history_" + world["setter_history"])
    if world.get("perms") and world["rules"]:
        v.probe("satisfied_permission_rule_also_in_force")
    if world.get("worker_thread"):
        v.probe("setters_on_main_thread_read_on_worker_thread")
    if world.get("nested") and world["ep"].endswith("Cb"):
        v.probe("callback_reads_a_non_conforming_policy_tree_through_the_library")
    if (world["req_uid"] == NOID and "owner" in world["rules"]) or (world["req_gid"] == NOID and "group" in world["rules"]):
        v.probe("required_id_is_minus_one")
    return v


def shrink_lists(world):
    out = [("nodes",), ("rules",)]
    return out
