# C18 - threads working on their own configuration objects do not disturb each other.
import copy
import json
import re

from .. import gen, grammar
from ..core import Rng, canon, strip_volatile, take_stderr
from .base import Verdict, sig_of, crash_check, leak_check
from . import c11

ID = "C18"
LEVEL = "exploration"
RUNS = (1000, 16000)
FLAVOURS = ("asan", "tsan")
RULE = ("2-16 caller threads, each with a private sub-tree and private objects, run seeded programs (layered reads of all kinds, "
        "single-file reads incl. failing ones, set/get histories, merge, write + read-back, error strings) under a seeded "
        "scheduler that owns every interleaving: real pthreads, one released at a time, preemption points at every basic-block "
        "edge of the library (trace-pc-guard) and every wrapped libc call; oracle (a) per-thread results equal the results of the "
        "same program run alone, (b) ThreadSanitizer build with hidden hand-offs: every library access to memory shared between "
        "threads other than the documented last-error-location record is reported; non-trivial = >= 2 switches inside library "
        "code; distinct = distinct interleaving signatures (hash of (from, to, edge) over all switches) x program shapes")
COMPONENTS = {
    "real": ["all of /repo/lib/*.c (ASan+UBSan build and ThreadSanitizer build)", "real pthreads", "kernel tmpfs", "glibc behind pass-through wrappers"],
    "stub": ["thread scheduling: exactly one task runs at a time, the next one is chosen by the seeded scheduler at trace-pc-guard edges and wrapped libc calls",
             "baton hand-off via raw futex in a translation unit compiled without -fsanitize=thread, so TSan sees no happens-before between tasks",
             "scandir order, short reads, heap fill as in the other checks"],
}
ALLOW_GLOBALS = ("last_scanned_filename", "last_scanned_line_nr")


def sub(obj, i):
    return json.loads(json.dumps(obj).replace("$ROOT", "$ROOT/t%d" % i))


def task_program(rng, i):
    """abstract program of one task: list of blocks; tree nodes under $ROOT/t<i>"""
    blocks = []
    nodes = []
    nb = rng.randint(1, 4)
    for b in range(nb):
        kind = rng.pick(["layered", "layered", "map", "roundtrip", "badfile", "merge", "errstr", "crowded", "longline"])
        if kind == "layered":
            w = gen.gen_layered_world(rng, rng.randrange(64), two_layer=rng.chance(0.5), small=True, allow_refuse=False)
            w["read"].pop("rel", None)
            w = sub(w, i * 10 + b)
            if w["read"].get("opts", {}).get("root_prefix") and not w["read"].get("root"):
                w["read"]["root"] = "$ROOT/t%d" % (i * 10 + b)     # ROOT_PREFIX of this task's private tree
            # the working directory is process-wide ($ROOT for every task); relative names then start with the
            # task's private directory
            if rng.chance(0.3):
                w["read"]["rel"] = True
            ep = w["read"]["ep"]
            if ep == "readDirs" and rng.chance(0.4):
                ep = "readDirsHistory"
            for gk in ("global_dirs", "global_pre", "global_late", "satisfied"):
                w["read"].pop(gk, None)       # the process-wide setters are documented as global: single-task prologue only
            blocks.append({"kind": "layered", "read": w["read"], "ep": ep, "cb": rng.chance(0.5)})
            nodes += w["nodes"]
        elif kind == "crowded":
            # a private two-layer tree with dozens of drop-ins (some names in both layers): algorithms that switch strategy
            # with the number of files run in several threads at once
            base = "$ROOT/t%d/cr%d" % (i, b)
            n_u, n_e = rng.randint(18, 40), rng.randint(18, 40)
            nodes.append({"p": base + "/u/app.conf", "t": "f", "entries": [[None, "main", "t%d" % i]]})
            for k in rng.sample(range(100, 200), n_u):
                nodes.append({"p": base + "/u/app.conf.d/%d.conf" % k, "t": "f", "entries": [[None, "k%d" % (k % 7), "u%d-%d" % (i, k)]]})
            for k in rng.sample(range(100, 200), n_e):
                nodes.append({"p": base + "/e/app.conf.d/%d.conf" % k, "t": "f", "entries": [[None, "k%d" % (k % 7), "e%d-%d" % (i, k)]]})
            blocks.append({"kind": "crowded", "usr": base + "/u", "etc": base + "/e", "hist": rng.chance(0.3)})
        elif kind == "map":
            mw = c11.gen_world(rng, 0, "quick")
            mw["ops"] = mw["ops"][:15]
            if mw["ctor"] == "parsed":
                mw["ctor"] = "newKeyFile"
                mw.pop("file", None)
            blocks.append({"kind": "map", "ctor": mw["ctor"], "ops": mw["ops"]})
        elif kind == "roundtrip":
            D = rng.pick(["=", ":"])
            lines, kinds, pairs = grammar.gen_conventional(rng, D, "#", rng.randint(1, 15), cont_trail=False)
            p = "$ROOT/t%d/rt%d.conf" % (i, b)
            nodes.append({"p": p, "t": "f", "c": grammar.render(lines)})
            nodes.append({"p": "$ROOT/t%d/out" % i, "t": "d"})
            nodes.append({"p": "$ROOT/shared-out", "t": "d"})
            # a third of the written files go, under names of their own, into a directory that all tasks use
            shared = rng.chance(0.33)
            blocks.append({"kind": "roundtrip", "path": p, "D": D, "out": "$ROOT/shared-out" if shared else "$ROOT/t%d/out" % i, "name": "w%d_%d.conf" % (i, b)})
        elif kind == "longline":
            # a private file with a line beyond the 8 KiB line buffer (whatever the library keeps to grow into is its own)
            p = "$ROOT/t%d/long%d.conf" % (i, b)
            nodes.append({"p": p, "t": "f", "c": "a=1\n[s%d]\nlong=%s\nb=t%d\n" % (i, "L%d" % i * rng.pick([3000, 4100, 9000]), i)})
            blocks.append({"kind": "badfile", "path": p})
        elif kind == "badfile":
            p = "$ROOT/t%d/bad%d.conf" % (i, b)
            n = rng.randint(0, 10)
            nodes.append({"p": p, "t": "f", "c": "".join("k%d=v\n" % x for x in range(n)) + rng.pick(["[oops\n", "[a] x\n", "[]\n", "key text\n"])})
            blocks.append({"kind": "badfile", "path": p})
        elif kind == "merge":
            pa, pb = "$ROOT/t%d/ma%d.conf" % (i, b), "$ROOT/t%d/mb%d.conf" % (i, b)
            nodes.append({"p": pa, "t": "f", "entries": gen.file_entries(rng, 100 + i)})
            nodes.append({"p": pb, "t": "f", "entries": gen.file_entries(rng, 200 + i)})
            blocks.append({"kind": "merge", "a": pa, "b": pb})
        else:
            blocks.append({"kind": "errstr", "codes": [rng.randrange(25) for _ in range(3)]})
    return blocks, nodes


def gen_world(rng, i, tier):
    nt = rng.pick([2, 2, 3, 3, 4, 6, 8, 16])
    tasks = []
    nodes = []
    for t in range(nt):
        bl, nd = task_program(rng, t)
        tasks.append(bl)
        nodes += nd
    mode = rng.pick(["random", "random", "random", "burst", "pct", "api"])
    sched = {"mode": mode, "seed": rng.getrandbits(48), "p_num": 1, "p_den": rng.pick([2, 4, 8, 16, 32, 64]), "d": rng.randint(1, 4), "len": rng.pick([500, 2000, 8000])}
    glob = rng.pick([None, None, [".d"], [".conf.d", ".d"]])
    cfg = gen.io_cfg(rng)
    cfg["cwd"] = "$ROOT"
    if rng.chance(0.25):
        cfg["locale"] = "xx_XX"       # the application has chosen a locale whose decimal point is ',' (process-wide state)
    # a process-wide requirement (set once, before the threads start) that the private directories meet differently:
    # every task's own files live in a directory of mode 0755 or 0700, and the directory must be searchable by others
    perms = None
    if rng.chance(0.25):
        perms = [0o400, 0o001]
        for t in range(nt):
            nodes.append({"p": "$ROOT/t%d" % t, "t": "d", "mode": rng.pick([0o755, 0o700])})
    # a quarter of the joint runs are the first thing a new process does: whatever the library sets up lazily on
    # first use is then set up under the seeded scheduler
    fresh = rng.chance(0.25)
    return {"kind": "threads", "tasks": tasks, "nodes": nodes, "sched": sched, "global_dirs": glob, "cfg": cfg, "fresh": fresh, "perms": perms}


def block_ops(b, base):
    """executor ops of one block; `base` is the first free slot number"""
    k = b["kind"]
    ops = []
    if k == "layered":
        read = dict(b["read"])
        read["ep"] = b["ep"]
        for o in gen.layered_read_ops(read, cb={} if b["cb"] else None):
            o = dict(o)
            for f in ("o", "k", "in", "h"):
                if f in o and isinstance(o[f], int):
                    o[f] += base
            ops.append(o)
        ops.append({"op": "errLocation", "nocompare": True})
    elif k == "crowded":
        if b["hist"]:
            ops.append({"op": "readDirsHistory", "o": base, "usr": b["usr"], "etc": b["etc"], "name": "app", "suffix": "conf", "delim": "=", "comment": "#"})
            ops.append({"op": "dumpHistory", "h": base, "ext": False})
            ops.append({"op": "freeHistory", "h": base})
        else:
            ops.append({"op": "readDirs", "o": base, "usr": b["usr"], "etc": b["etc"], "name": "app", "suffix": "conf", "delim": "=", "comment": "#"})
            ops.append({"op": "dump", "k": base, "ext": True})
            ops.append({"op": "free", "k": base})
    elif k == "map":
        ops.append({"op": b["ctor"], "o": base, "delim": 61, "comment": 35, "options": None})
        for a in b["ops"]:
            e = c11.to_exec(a)
            if e["k"] == 0:
                e["k"] = base
            ops.append(e)
        ops.append({"op": "dump", "k": base, "ext": True})
        ops.append({"op": "free", "k": base})
    elif k == "roundtrip":
        ops.append({"op": "readFile", "o": base, "path": b["path"], "delim": b["D"], "comment": "#"})
        ops.append({"op": "dump", "k": base, "ext": True})
        ops.append({"op": "write", "k": base, "dir": b["out"], "name": b["name"], "readback": True, "need": ["k"]})
        ops.append({"op": "readFile", "o": base + 1, "path": b["out"] + "/" + b["name"], "delim": b["D"], "comment": "#"})
        ops.append({"op": "dump", "k": base + 1, "ext": True})
        ops.append({"op": "free", "k": base})
        ops.append({"op": "free", "k": base + 1})
    elif k == "badfile":
        ops.append({"op": "readFile", "o": base, "path": b["path"], "delim": "=", "comment": "#"})
        ops.append({"op": "errLocation", "nocompare": True})
        ops.append({"op": "free", "k": base})
    elif k == "merge":
        ops.append({"op": "readFile", "o": base, "path": b["a"], "delim": "=", "comment": "#"})
        ops.append({"op": "readFile", "o": base + 1, "path": b["b"], "delim": "=", "comment": "#"})
        ops.append({"op": "merge", "o": base + 2, "usr": base, "etc": base + 1, "need": ["usr", "etc"]})
        ops.append({"op": "dump", "k": base + 2, "ext": True})
        for s in (base, base + 1, base + 2):
            ops.append({"op": "free", "k": s})
    else:
        for c in b["codes"]:
            ops.append({"op": "errString", "code": c})
    return ops


def task_ops(blocks):
    ops = []
    for n, b in enumerate(blocks):
        ops += block_ops(b, 10 * n)
    return ops


def build_plans(world):
    tree = gen.tree_plan(world["nodes"])
    pro = [{"op": "setConfDirs", "dirs": world["global_dirs"]}] if world.get("global_dirs") else []
    if world.get("perms"):
        pro.append({"op": "security", "what": "perms", "file": world["perms"][0], "dir": world["perms"][1]})
    tasks = [task_ops(b) for b in world["tasks"]]
    multi = {"cfg": dict(world["cfg"], events=False), "tree": tree, "prologue": pro, "tasks": tasks, "sched": dict(world["sched"], threads=True)}
    plans = [multi]
    for t in tasks:
        plans.append({"cfg": dict(world["cfg"], events=False), "tree": tree, "prologue": pro, "tasks": [t]})
    return plans


def run_case(ctx, world, plans):
    if world.get("fresh"):
        for fl in ("asan", "tsan"):
            if fl in ctx.ex:
                ctx.ex.pop(fl).close()
    ex = ctx.executor("asan")
    results = [ex.run(p) for p in plans]
    # the same plan and scheduler seed in the ThreadSanitizer build (its own, equally deterministic interleaving:
    # the edge set of that build differs from the ASan build)
    multi = results[0]
    if not multi.get("fatal") and multi.get("sched"):
        tp = copy.deepcopy(plans[0])
        tp["cfg"] = dict(tp["cfg"], ledger=False)
        if ctx.tag in ("gate", "replay") and "tsan" in ctx.ex:
            # ThreadSanitizer reports every race only once per process: gate, shrinker and replay use a fresh one
            ctx.ex.pop("tsan").close()
        tex = ctx.executor("tsan")
        take_stderr(tex)
        tr = tex.run(tp)
        rep = take_stderr(tex)
        tr = dict(tr)
        tr["tsan_reports"] = parse_tsan(rep)
        results.append(tr)
    return results


LIBFILES = ("libeconf.c", "libeconf_ext.c", "getfilecontents.c", "mergefiles.c", "helpers.c", "keyfile.c", "econf_error.c", "get_value_def.c", "readconfig.c")


def parse_tsan(text):
    """ThreadSanitizer reports -> list of dicts.  A report is attributed to the library only when
    the innermost non-runtime frame of at least one of the two racing accesses is library code."""
    reports = []
    for block in text.split("=================="):
        if "WARNING: ThreadSanitizer" not in block:
            continue
        kind = re.search(r"WARNING: ThreadSanitizer: ([^\(\n]+)", block).group(1).strip()
        loc = ""
        m = re.search(r"Location is (global '([^']+)'|heap block of size \d+|stack of [^\n]*|[^\n]*)", block)
        if m:
            loc = m.group(2) if m.group(2) else re.sub(r"0x[0-9a-f]+", "ADDR", m.group(1))[:60]
        access_frames = []
        # sections: "  Write of size ..." / "  Previous read of size ..." up to the next blank line
        for sec in re.finditer(r"^  (?:Previous )?(?:[Aa]tomic )?(?:[Ww]rite|[Rr]ead) of size \d+[^\n]*\n((?:    #\d+ [^\n]*\n)+)", block, re.M):
            frames = re.findall(r"#\d+ (\S+) (\S+?)(?::(\d+))?(?::\d+)? \(", sec.group(1))
            first = None
            for fn, f, ln in frames:
                base = f.rsplit("/", 1)[-1]
                if "/lib/" in f and base in LIBFILES and "/sim/" not in f:
                    first = ("lib", fn, base, int(ln or 0))
                    break
                if "/sim/" in f or "nlohmann" in f or "/include/c++/" in f or base in ("lesim.cc", "sched.cc"):
                    first = ("harness", fn, base, int(ln or 0))
                    break
            access_frames.append(first)
        lib = [a for a in access_frames if a and a[0] == "lib"]
        reports.append({"kind": kind, "location": loc, "lib_frames": [a[1:] for a in lib], "text": block.strip()[:1500]})
    return reports


def comparable(task_results, ops):
    out = []
    for op, r in zip(ops, task_results):
        if op.get("nocompare"):
            continue
        out.append(strip_volatile(r))
    return out


def check(world, plans, results):
    v = Verdict()
    for k, res in enumerate(results):
        if crash_check(v, res, "multi-thread run" if k == 0 else ("solo run of task %d" % (k - 1) if k <= len(world["tasks"]) else "tsan run")):
            v.sig = sig_of("crash", v.classes())
            return v
    multi = results[0]
    nt = len(world["tasks"])
    for t in range(nt):
        ops = plans[0]["tasks"][t]
        got = comparable(multi["tasks"][t], ops)
        solo = comparable(results[1 + t]["tasks"][0], ops)
        if canon(got) != canon(solo):
            for n, (a, b) in enumerate(zip(solo, got)):
                if canon(a) != canon(b):
                    v.fail("disturbed", "task %d op %d %s: alone %s, among %d threads %s" % (t, n, json.dumps(ops[n])[:120], canon(a)[:200], nt, canon(b)[:200]))
                    break
            else:
                v.fail("disturbed", "task %d: result log differs from the solo run" % t)
            break
    leak_check(v, multi, "multi-thread run")
    # process-wide state that belongs to the application: left as it was by every solo run, so also by the joint run
    solo_umasks = set(r.get("umask_after") for r in results[1:1 + nt])
    if solo_umasks == {0o22} and multi.get("umask_after") != 0o22:
        v.fail("disturbed:umask", "after the joint run the process umask is %#o, after every solo run it is 022" % multi.get("umask_after"))
    sc = multi.get("sched", {})
    if len(results) > nt + 1:
        tres = results[-1]
        # the TSan build must have followed the same program (results equal, interleaving may differ in edge numbering)
        for rep in tres.get("tsan_reports", []):
            if not rep["lib_frames"]:
                v.obs["tsan_report_without_library_frame"] = v.obs.get("tsan_report_without_library_frame", 0) + 1
                continue
            if rep["location"] in ALLOW_GLOBALS:
                v.probe("tsan_documented_exception_seen")
                continue
            v.fail("shared:" + (rep["location"] or "unknown"), "ThreadSanitizer (hand-offs hidden): %s on %s, library frames %r" % (rep["kind"], rep["location"] or "?", rep["lib_frames"][:3]))
    v.nontrivial = sc.get("in_edge", 0) >= 2
    kinds = sorted(set(b["kind"] for t in world["tasks"] for b in t))
    v.sig = sig_of(sc.get("sig"), nt, kinds)
    v.probe("threads_%d" % nt)
    v.probe("policy_" + world["sched"]["mode"])
    if world.get("fresh"):
        v.probe("joint_run_is_first_use_in_a_new_process")
    if world.get("perms"):
        v.probe("permission_requirement_in_force_private_directories_differ")
    if sc.get("in_edge"):
        v.probe("switch_inside_library_code", sc["in_edge"])
    return v


def pre_shrink(ctx, world, plans, results, cls):
    """turn the seeded schedule into an explicit transfer list so that it can be minimised and replayed"""
    multi = results[0]
    if multi.get("sched") and world["sched"].get("mode") != "replay":
        w = copy.deepcopy(world)
        w["sched"] = {"mode": "replay", "transfers": multi["sched"]["transfers"]}
        from ..driver import violates
        if violates(__import__("lesim.props.c18", fromlist=["x"]), ctx, w, cls):
            return w
    return world


def shrink_lists(world):
    out = [("tasks",)]
    for i in range(len(world["tasks"])):
        out.append(("tasks", i))
    if world["sched"].get("mode") == "replay":
        out.append(("sched", "transfers"))
    return out
