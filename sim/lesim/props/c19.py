# C19 - econftool shows what an application would get.
# The real tool binary (built from /repo/util/econftool.c + the same library sources, ASan+UBSan,
# no interposition) is a second party working on the same simulated tree as the in-process library.
import copy
import re

from .. import gen, grammar
from ..core import Rng
from ..models import norm, render_plain
from .base import Verdict, sig_of, tagged, crash_check

ID = "C19"
LEVEL = "exploration"
RUNS = (3000, 60000)
RULE = ("one seeded two-layer tree under $ECONFTOOL_ROOT (/usr/etc, /etc; main files and drop-ins; contents with only group-less "
        "keys, only sections, or both; optionally one malformed member) or a single absolute file; --delimiters in {=, :, spaces, "
        "'= ', '\\t'-escape} and --comment in {#, ;}; the real tool is spawned for show, syntax and cat and compared with the "
        "in-process library on the same tree; non-trivial = >= 2 files and both group-less and sectioned keys present; "
        "distinct = distinct (content shape, #files, delimiter choice, malformed or not, single/tree)")
COMPONENTS = {
    "real": ["econftool built from /repo/util/econftool.c and /repo/lib/*.c (clang ASan+UBSan), spawned as a child process", "the in-process library (as in every other check)", "kernel tmpfs"],
    "stub": ["none inside the tool (no interposition there); in-process side as usual"],
}

DELIMS = [("=", "=", "="), (":", ":", ":"), ("spaces", " \t\x0c\n\r\x0b", " "), ("= ", "= ", "="), ("\\t=", "\t=", "\t"), (" \\t", " \t", " "),
          # several different escapes in one option value (each is translated by its own pass over a shared static buffer)
          ("=\\t\\f", "=\t\x0c", "="), ("= \\t\\n", "= \t\n", "="), (":\\v\\t", ":\x0b\t", ":"), ("\\f=\\t", "\x0c=\t", "="),
          # the empty delimiter set: every line is a key (files like /etc/shells)
          ("", "", "")]


def contents(rng, fid, shape, dch, multiline=False):
    if rng.chance(0.08):
        return []          # a file without any entry (empty, or everything commented out) is still a consulted file
    ents = _contents(rng, fid, shape, dch)
    if multiline:
        for e in ents:
            r = rng.random()
            if r < 0.08:
                e[2] = e[2] + "\n   \n  after blank%d" % fid       # an interior line of blanks only is part of the value
            elif r < 0.25:
                e[2] = e[2] + "\n   cont%d" % fid + ("\n\tthird line" if rng.chance(0.3) else "")
            elif r < 0.35:
                e[2] = '"quoted %s"' % e[2]
    return ents


def _contents(rng, fid, shape, dch):
    ents = []
    n = 0
    if dch == "":
        # key-only lines.  The tool prints "key = " WITHOUT a line end for a key that has no value, so two such keys in a
        # row cannot be told from one key with a value: for this delimiter choice only exit status, error location and
        # the list of consulted files are compared, not the listed content
        if shape in ("nogroup", "both"):
            for k in rng.subset(["/bin/sh", "alpha", "two words", "beta%d" % fid], 1, 3):
                ents.append([None, k, ""])
        if shape in ("sections", "both"):
            for s in rng.subset(["secA", "secB"], 1, 2):
                for k in rng.subset(["/usr/bin/zsh", "delta", "eps %d" % fid], 1, 2):
                    ents.append([s, k, ""])
        return ents
    if shape in ("nogroup", "both"):
        for k in rng.subset(["al", "alpha", "beta", "gamma", "alpha_2", "ALPHA"], 1, 4):        # incl. keys that are prefixes of later keys
            n += 1
            ents.append([None, k, "v%d.%d" % (fid, n)])
    if shape in ("sections", "both"):
        for s in rng.subset(["secA", "secB", "[secB]"], 1, 2):      # "[secB]": written [[secB]] in the file, the brackets are part of the stored name
            for k in rng.subset(["alpha", "de", "delta", "eps", "delta.x"], 1, 3):
                n += 1
                ents.append([s, k, "v%d.%d" % (fid, n)])
    return ents


def gen_world(rng, i, tier):
    dl = rng.pick(DELIMS)
    cm = rng.pick(["#", ";", "#", ";", "#;", ";#"])
    if dl[1] == ":" and rng.chance(0.3):
        cm = rng.pick(["=", "=#"])          # any character that is no delimiter of THIS call can start a comment
    if dl[1] in ("=", "= ") and rng.chance(0.15):
        cm = ":"
    shape = ["nogroup", "sections", "both"][i % 3]
    w = {"kind": "tool", "delim": list(dl), "comment": cm, "shape": shape, "cfg": gen.io_cfg(rng, faults=False)}
    ml = dl[1] in ("=", ":") and rng.chance(0.5)      # continuation lines exist only for non-blank delimiter sets
    w["multiline"] = ml
    w["comment_first"] = rng.chance(0.5)        # order of the two options on the command line
    w["opt_spelling"] = rng.pick(["long=", "long=", "long", "short", "short-attached"])     # --comment=X | --comment X | -c X | -cX
    base = rng.pick(["app", "my.app", "x", "sub/app", "systemd/journald"])      # a name may have a directory part (systemd/journald.conf)
    w["base"] = base
    # the root the tool is pointed at may have any legal directory name
    w["rootsub"] = rng.pick(["", "", "", "/stage:2", "/img;rw", "/with space", "/a=b#c"])
    # ... and may be SPELLED in a way that starts like one of the directories the tool adds it to (/etc/../<root>)
    w["rootpre"] = rng.pick(["", "", "", "/etc/..", "/usr/..", "/./"])
    nodes = []
    fid = 0
    if rng.chance(0.15):
        w["single"] = True
        fid += 1
        # an absolute file of any name: with a suffix, without any dot in the whole path (/etc/shells, /etc/fstab),
        # a dot only in a directory name, a leading or a trailing dot
        w["single_path"] = rng.pick(["$ROOT/some/dir/%s.conf" % base, "$ROOT/some/dir/%s.conf" % base, "$ROOT/some/dir/shells", "$ROOT/etc/fstab",
                                     "$ROOT/some.d/dir/shells", "$ROOT/some/dir/.hidden", "$ROOT/some/dir/name.",
                                     # a path of several hundred bytes made of short components (far below PATH_MAX)
                                     "$ROOT/" + "/".join(["deep-directory-%02d-%s" % (k, "x" * 20) for k in range(rng.pick([7, 12]))]) + "/%s.conf" % base])
        nodes.append({"p": w["single_path"], "t": "f", "entries": contents(rng, fid, shape, dl[2], ml)})
        # an absolute file needs no tool root at all; and the rest of the environment is none of show/syntax/cat's
        # business (a home directory name longer than PATH_MAX is legal, no home directory too)
        w["no_root"] = rng.chance(0.3)
        w["home"] = rng.pick(["$ROOT/home", "$ROOT/home", "long", "unset", ""])
    else:
        w["single"] = False
        for layer in ("$ROOT" + w["rootsub"] + "/usr/etc", "$ROOT" + w["rootsub"] + "/etc"):
            if rng.chance(0.6):
                fid += 1
                nodes.append({"p": "%s/%s.conf" % (layer, base), "t": "f", "entries": contents(rng, fid, rng.pick([shape, shape, "both", "nogroup"]), dl[2], ml)})
            for nm in rng.subset(["10-a", "9-b", "zz", "A"], 0, 3):
                fid += 1
                nodes.append({"p": "%s/%s.conf.d/%s.conf" % (layer, base, nm), "t": "f", "entries": contents(rng, fid, rng.pick([shape, "both", "sections"]), dl[2], ml)})
    for n in nodes:
        if rng.chance(0.1):
            n["tail_sec"] = rng.pick(["reserved", "secB", "empty one"])      # a trailing section header without any entry
    w["nodes"] = nodes
    w["comment_seed"] = rng.getrandbits(32) if rng.chance(0.6) else None
    if nodes and rng.chance(0.25):
        w["malformed"] = [rng.randrange(len(nodes)), rng.pick(["[oops", "[a] x", "[]"]), rng.randrange(4)]
    return w


def tree_of(world):
    d = world["delim"][2]
    pad = " " if world["delim"][0] == "= " else ""
    out = []
    for k, n in enumerate(world["nodes"]):
        c = render_plain([tuple(e) for e in n.get("entries", [])], d, pad)
        if world.get("comment_seed") is not None:
            # comment lines (every character of the comment set is used) in front of lines that are not continuation lines
            r = Rng(world["comment_seed"] + k)
            out_lines = []
            if not n.get("entries"):
                out_lines.append("%s everything is commented out" % r.pick(world["comment"]))
            for line in c.split("\n"):
                if line and line[0] not in " \t" and r.chance(0.35):
                    out_lines.append("%s note %d" % (r.pick(world["comment"]), len(out_lines)))
                out_lines.append(line)
            c = "\n".join(out_lines)
        if n.get("tail_sec"):
            c = c.rstrip("\n") + ("\n" if c.strip("\n") else "") + "[%s]\n" % n["tail_sec"]
        m = world.get("malformed")
        if m and m[0] % len(world["nodes"]) == k:
            lines = c.split("\n")
            pos = min(m[2], max(0, len(lines) - 1))
            lines.insert(pos, m[1])
            c = "\n".join(lines)
        out.append({"t": "f", "p": n["p"], "c": c})
    rs = world.get("rootsub", "")
    out.append({"t": "d", "p": "$ROOT" + rs + "/usr/etc"})
    out.append({"t": "d", "p": "$ROOT" + rs + "/etc"})
    return out


def build_plans(world):
    arg_d, lib_d, _ = world["delim"]
    cm = world["comment"]
    base = world["base"]
    target = world.get("single_path", "$ROOT/some/dir/%s.conf" % base) if world["single"] else "%s.conf" % base
    sp = world.get("opt_spelling", "long=")
    dopt = {"long=": ["--delimiters=" + arg_d], "long": ["--delimiters", arg_d], "short": ["-d", arg_d], "short-attached": ["-d" + arg_d]}[sp if arg_d != "" or sp in ("long=", "long", "short") else "long="]
    copt = {"long=": ["--comment=" + cm], "long": ["--comment", cm], "short": ["-c", cm], "short-attached": ["-c" + cm]}[sp]
    common = [dopt, copt]
    if world.get("comment_first"):
        common.reverse()
    common = common[0] + common[1]
    rs = world.get("rootsub", "")
    env = {"ECONFTOOL_ROOT": world.get("rootpre", "") + "$ROOT" + rs, "ASAN_OPTIONS": "exitcode=77:detect_leaks=0:replace_str=0:intercept_strlen=0:intercept_strchr=0:intercept_strndup=0", "UBSAN_OPTIONS": "print_stacktrace=1:halt_on_error=1:exitcode=77", "HOME": "$ROOT/home"}
    if world.get("no_root"):
        env["ECONFTOOL_ROOT"] = None
    if world.get("home", "$ROOT/home") != "$ROOT/home":
        env["HOME"] = {"long": "/" + "h" * 5000, "unset": None, "": ""}[world["home"]]
    ops = []
    for cmd in ("show", "syntax", "cat"):
        ops.append({"op": "tool", "argv": ["$TOOL", cmd] + common + [target], "env": env, "tag": "tool_" + cmd})
    if world["single"]:
        ops.append({"op": "readFile", "o": 0, "path": target, "delim": lib_d, "comment": cm, "tag": "lib"})
    else:
        ops.append({"op": "readDirs", "o": 0, "usr": "$ROOT" + rs + "/usr/etc", "etc": "$ROOT" + rs + "/etc", "name": base, "suffix": ".conf", "delim": lib_d, "comment": cm, "tag": "lib"})
    ops.append({"op": "errLocation", "tag": "loc"})
    ops.append({"op": "dump", "k": 0, "ext": True, "tag": "lib_dump"})
    ops.append({"op": "free", "k": 0})
    if not world["single"]:
        ops.append({"op": "readDirsHistory", "o": 0, "usr": "$ROOT" + rs + "/usr/etc", "etc": "$ROOT" + rs + "/etc", "name": base, "suffix": ".conf", "delim": lib_d, "comment": cm, "tag": "hist"})
        ops.append({"op": "dumpHistory", "h": 0, "ext": True, "tag": "hist_dump"})
        ops.append({"op": "freeHistory", "h": 0})
    return [{"cfg": dict(world["cfg"], events=False), "tree": tree_of(world), "ops": ops}]


def run_case(ctx, world, plans):
    ex = ctx.executor("asan")
    out = []
    for p in plans:
        q = copy.deepcopy(p)
        for op in q["ops"]:
            if op.get("op") == "tool":
                op["argv"] = [ctx.build.tool() if a == "$TOOL" else a for a in op["argv"]]
        r = ex.run(q)
        # a sanitizer report carries pids and addresses: keep only its kind so that results stay replayable
        for o in r.get("ops", []):
            if isinstance(o.get("err"), str) and "==WARNING" in o["err"]:
                o["err"] = re.sub(r"==\d+==WARNING:[^\n]*?(?=(==\d+==|\n|$))", "", o["err"])
            if isinstance(o.get("err"), str) and "Sanitizer" in o["err"]:
                m = re.search(r"ERROR: \w+Sanitizer: ([^\s]+)", o["err"])
                o["err"] = "SANITIZER " + (m.group(1) if m else "report") + " in " + ",".join(sorted(set(re.findall(r" in (\w+) /", o["err"])))[:6])
        out.append(r)
    return out


def tool_items(text):
    """-> list of (section|None, key, tuple(values)) in order"""
    out = []
    lines = [l for l in text.split("\n") if not re.match(r"^(Vendor config directory|Config directory for local changes|Basename|Suffix):", l)]
    sec = None
    in_block = False
    cur = None
    for l in lines:
        if l == "":
            in_block = False
            sec = None
            cur = None
            continue
        m = re.match(r"^(.*?) = (.*)$", l)
        if l.startswith("     ") and cur is not None:
            cur[2].append(l[5:])
            continue
        if m:
            cur = [sec, m.group(1), [m.group(2)]]
            out.append(cur)
            in_block = True
            continue
        # a section line starts a block
        sec = l
        in_block = True
        cur = None
    return [(s, k, tuple(v)) for s, k, v in out]


def lib_items(dump):
    out = []
    ng = dump.get("nogroup", {})
    if ng.get("rc") == 0:
        for k in ng["keys"]:
            out.append((None, k["k"], tuple(k.get("x", {}).get("values") or [""])))
    for g in dump.get("groups", []):
        if g.get("rc") == 0:
            for k in g["keys"]:
                out.append((g["g"], k["k"], tuple(k.get("x", {}).get("values") or [""])))
    return out


def sanitizer_hit(r):
    return r.get("exit") == 77 or r.get("signal") or "SANITIZER" in (r.get("err") or "") or "runtime error:" in (r.get("err") or "")


def unspell_root(world, res):
    """the tool reports paths below ECONFTOOL_ROOT as it was spelled; the library side uses the plain root"""
    pre = world.get("rootpre", "")
    if not pre:
        return res
    import json
    return json.loads(json.dumps(res).replace(pre + "$ROOT", "$ROOT"))


def check(world, plans, results):
    v = Verdict()
    plan, res = plans[0], unspell_root(world, results[0])
    if crash_check(v, res, "tool differential"):
        v.sig = sig_of("crash", v.classes())
        return v
    show, syn, cat = (tagged(plan, res, "tool_" + c) for c in ("show", "syntax", "cat"))
    lib = tagged(plan, res, "lib")
    for name, r in (("show", show), ("syntax", syn), ("cat", cat)):
        if r.get("err") == "spawn" or r.get("timeout"):
            v.fail("harness", "could not run the tool: %r" % r)
            return v
        if sanitizer_hit(r):
            v.fail("tool:sanitizer", "econftool %s: sanitizer report / signal: %s" % (name, (r.get("err") or "")[-400:]))
            return v
    lib_fail = lib["rc"] != 0
    # show
    if (show["exit"] != 0) != lib_fail:
        v.fail("show:status", "econftool show exits with %r but the library returns %r for the same tree" % (show["exit"], lib["rc"]))
    elif not lib_fail and world["delim"][1] != "":
        ti = sorted(tool_items(show["out"]), key=str)
        li = sorted(lib_items(tagged(plan, res, "lib_dump")), key=str)
        if ti != li:
            missing = [x for x in li if x not in ti]
            extra = [x for x in ti if x not in li]
            v.fail("show:content", "econftool show differs from the library: missing %r extra %r" % (missing[:4], extra[:4]))
    # syntax
    if (syn["exit"] != 0) != lib_fail:
        v.fail("syntax:status", "econftool syntax exits with %r but the library returns %r" % (syn["exit"], lib["rc"]))
    elif lib_fail and lib["rc"] in (9, 10, 11, 12):
        loc = tagged(plan, res, "loc")
        want = "%s (line %d)" % (loc["file"], loc["line"])
        if norm(want) not in norm(syn["err"]):
            v.fail("syntax:location", "econftool syntax does not name %r; stderr: %r" % (want, syn["err"][-300:]))
    # cat
    if world["single"]:
        if cat["exit"] == 0:
            v.obs["cat_on_single_file_succeeds"] = 1
    else:
        hist = tagged(plan, res, "hist")
        if (cat["exit"] != 0) != (hist["rc"] != 0):
            v.fail("cat:status", "econftool cat exits with %r but the history read returns %r" % (cat["exit"], hist["rc"]))
        elif hist["rc"] == 0:
            members = tagged(plan, res, "hist_dump")["members"]
            paths = [norm(m["path"]) for m in members]
            got_paths = [norm(p) for p in re.findall(r"^Path: (.*)$", cat["err"], re.M)]
            if got_paths != paths:
                v.fail("cat:paths", "econftool cat lists %r, the consulted files are %r" % (got_paths, paths))
            exp = []
            for m in members:
                exp += lib_items(m)
            got = tool_items(cat["out"])
            if got != exp and world["delim"][1] != "":
                v.fail("cat:content", "econftool cat content differs from the per-file listings: expected %r got %r" % (exp[:5], got[:5]))
    nfiles = len(world["nodes"])
    v.nontrivial = nfiles >= 2 and world["shape"] == "both"
    v.sig = sig_of(world["shape"], min(nfiles, 5), world["delim"][0], world["comment"], bool(world.get("malformed")), world["single"], lib["rc"], world.get("multiline"),
                   sorted(set(n["p"].split("/")[-2][-2:] + str(len(n.get("entries", []))) for n in world["nodes"])))
    if world["delim"][1] == "":
        v.probe("empty_delimiter_set_key_only_lines")
    if world.get("multiline"):
        v.probe("multiline_values")
    v.probe("shape_" + world["shape"])
    if len(world["comment"]) > 1:
        v.probe("comment_set_with_two_characters")
    if world.get("comment_seed") is not None:
        v.probe("comment_lines_present")
    if world.get("malformed"):
        v.probe("malformed_member")
    if world["single"]:
        v.probe("single_absolute_file")
    if world.get("rootsub"):
        v.probe("tool_root_with_unusual_characters")
    if any(n.get("tail_sec") for n in world["nodes"]):
        v.probe("file_with_entryless_trailing_section")
    return v


def shrink_lists(world):
    out = [("nodes",)]
    for i, n in enumerate(world["nodes"]):
        if n.get("entries"):
            out.append(("nodes", i, "entries"))
    return out
