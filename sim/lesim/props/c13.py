# C13 - parse failures name the right error, file and line and return nothing partial.
from .. import gen, grammar
from ..core import Rng
from ..models import Tree, norm
from .base import Verdict, sig_of, tagged, crash_check
from .c06 import empty_dump

ID = "C13"
LEVEL = "fault_enumeration"
RUNS = (6000, 150000)
RULE = ("one seeded 5.1 file (all delimiter classes / comment sets); one malformed line (missing bracket, text after bracket, empty "
        "section name, key+text without delimiter) is injected at EVERY line position in turn (complete single-fault enumeration per "
        "file, plus one two-fault plan); the file is read alone or as main file / k-th drop-in of a tree through all eight read "
        "entry points, after a history of other successful and failing reads (stale process-wide location); "
        "non-trivial = file with >= 3 lines; distinct = distinct (delimiter class, error kind, kind of the preceding line, "
        "position class, entry point, member role) per execution")

CODES = {"missing_bracket": 9, "bare_bracket": 9, "text_after": 12, "empty_name": 11, "missing_delim": 10}
KEYWORDS = {0: ["success"], 1: ["error"], 2: ["memory"], 3: ["not found", "file"], 4: ["group"], 5: ["key", "not found"], 6: ["key"], 7: ["writ"],
            8: ["parse"], 9: ["bracket"], 10: ["delimiter"], 11: ["section", "empty"], 12: ["after", "section"], 13: ["list", "null"],
            14: ["boolean"], 15: ["null", "value"], 16: ["owner"], 17: ["group"], 18: ["file", "permission"], 19: ["dir", "permission"],
            20: ["sym"], 21: ["callback"], 22: ["argument", "null"], 23: ["option"], 24: ["convert"]}
EPS = ["readFile", "readFileCb", "readDirs", "readDirsCb", "readDirsHistory", "readDirsHistoryCb", "readConfig", "readConfigCb"]


def gen_world(rng, i, tier):
    D = rng.pick(grammar.DSETS)
    C = rng.pick(grammar.CSETS)
    lines, kinds, pairs = grammar.gen_conventional(rng, D, C, rng.randint(0, 12))
    w = {"kind": "parse-error", "D": D, "C": C, "lines": [[k, l] for k, l in zip(kinds, lines)], "inject_seed": rng.getrandbits(32),
         "cfg": gen.io_cfg(rng), "init": rng.pick(["null", "sentinel"]), "errstrings": i % 20 == 0}
    if rng.chance(0.15):
        # one comment line whose length sits at a stdio / getline buffer boundary (line + newline = 4096, 8191, 8192, 16384 ...):
        # it is one line, and the lines after it keep their numbers
        n = rng.pick([4094, 4095, 4096, 8189, 8190, 8191, 8192, 8193, 16382, 16383, 16384, 32767])
        ok = [k for k in range(len(w["lines"]) + 1) if k == len(w["lines"]) or w["lines"][k][0] != "cont"]     # never between a value and its continuation
        at = rng.pick(ok)
        w["lines"].insert(at, ["comment", rng.pick(C) + "L" * (n - 1)])
        w["boundary_line"] = n
    if rng.chance(0.5):
        w["mode"] = "single"
        w["ep"] = rng.pick(["readFile", "readFileCb"])
    else:
        w["mode"] = "tree"
        lw = gen.gen_layered_world(rng, i, small=True, allow_refuse=False)
        model = gen.model_of(lw)
        if model is None or model["nofile"]:
            w["mode"] = "single"
            w["ep"] = "readFile"
        else:
            lw["read"]["delim"], lw["read"]["comment"] = D, C
            for n in lw["nodes"]:
                if n["t"] == "f":
                    n["delim"] = D[0] if D else "="
                    n.pop("noise", None)
                    n.pop("c", None)           # raw tiny contents were written for the tree's own comment character
            if lw["cfg"].get("cwd"):
                w["cfg"]["cwd"] = lw["cfg"]["cwd"]
            w["layered"] = {"read": lw["read"], "nodes": lw["nodes"]}
            w["member"] = rng.randrange(len(model["consulted"]))
            if lw["read"]["ep"] == "readDirs":
                w["ep"] = rng.pick(["readDirs", "readDirsCb", "readDirsHistory", "readDirsHistoryCb"])
            else:
                w["ep"] = rng.pick(["readConfig", "readConfigCb"])
                # the parse options must not change which error is reported (JOIN_SAME_ENTRIES works on the
                # entries after the file was read)
                lw["read"]["opts"]["extra"] = rng.pick([[], [], ["JOIN_SAME_ENTRIES=1"], ["JOIN_SAME_ENTRIES=1"], ["PYTHON_STYLE=1"]])
                if lw["read"]["opts"]["extra"] == ["PYTHON_STYLE=1"]:
                    # python style changes what an indented line is (always a continuation) but not what a section header
                    # is: malformed HEADERS keep their codes wherever they stand, indented or not
                    w["python"] = True
    # the caller's callback may itself read a configuration through the library (an allow-list) before it answers
    w["nested"] = rng.chance(0.25)
    w["repeat_under_budget"] = rng.chance(0.12)
    # (a read on a loader thread with the question for the location asked by the thread that joined it was tried in
    #  round 19 and withdrawn: C13 does not say that the location may be asked from another thread, and a per-thread
    #  location is a legitimate way to meet C18 - see DESIGN.md 12.5.  The plan builder keeps the mechanism.)
    w["loader_thread"] = False
    # earlier reads of the same process: other files, other delimiter classes (the arguments live in reused buffers)
    w["stale"] = rng.pick([[], ["good"], ["bad"], ["good", "bad"], ["bad", "good"], ["good:blank"], ["good:mixed", "bad"], ["good:none"], ["bad", "good:blank"]])
    return w


def injection(world, pos):
    """the malformed line injected at position pos and the expected error kind (None: no error expected)"""
    r = Rng(world["inject_seed"] * 1000 + pos)
    D, C = world["D"], world["C"]
    cls = grammar.dclass(D)
    kinds = ["missing_bracket", "missing_bracket", "text_after", "text_after", "empty_name", "empty_name", "bare_bracket"]
    if cls == "NONBLANK" and not world.get("python"):
        kinds.append("missing_delim")
        kinds.append("missing_delim")
        kinds.append("missing_delim_q")
    kind = r.pick(kinds)
    name = grammar.token(r, "]" + C + "[", 1, 6, first_forbid=" \t")
    name = name.rstrip(" \t") or "s"
    if kind == "missing_bracket":
        line = grammar.blanks(r, 0, 2) + "[" + name
    elif kind == "text_after":
        line = grammar.blanks(r, 0, 2) + "[" + name + "]" + grammar.blanks(r, 0, 2) + grammar.token(r, "]" + C + " \t", 1, 4)
    elif kind == "empty_name":
        line = grammar.blanks(r, 0, 2) + "[]" + grammar.blanks(r, 0, 2)
    elif kind == "bare_bracket":
        line = grammar.blanks(r, 0, 2) + "[" + grammar.blanks(r, 0, 2)        # nothing but the opening bracket: no closing one
    if world.get("python"):
        pass          # in python style a comment character behind text is part of the text: no trailing comments here
    elif not kind.startswith("missing_delim") and cls != "NONE" and r.chance(0.2):
        line += grammar.blanks(r, 1, 2) + r.pick(C) + grammar.token(r, C + '"', 0, 6, inner_blank=True)     # a trailing comment does not heal the line
    elif not kind.startswith("missing_delim") and cls != "NONE" and len(C) >= 2 and r.chance(0.25):
        # ... nor does a comment that contains further comment characters (in any order) and a closing bracket
        c1, c2 = r.sample(list(C), 2)
        line += " " + c1 + " ] " + c2 + " z" + r.pick(["", " ]"])
    if kind == "missing_delim_q":
        # the text behind the key contains a delimiter character - inside double quotes.  A line that holds a delimiter
        # is never the continuation of the value above it: missing delimiter, wherever the line stands
        key = grammar.token(r, " \t" + D + C + '"', 1, 5, first_forbid="[")
        line = key + grammar.blanks(r, 1, 2) + '"' + grammar.token(r, D + C + '"', 1, 4) + r.pick([c_ for c_ in D]) + grammar.token(r, D + C + '"', 1, 4) + '"'
        return line, "missing_delim", "missing_delim_q"
    if kind == "missing_delim":
        key = grammar.token(r, " \t" + D + C + '"', 1, 5, first_forbid="[")
        text = grammar.token(r, D + C + '"', 1, 6, first_forbid=" \t", inner_blank=True).rstrip(" \t") or "t"
        # "a key followed by text": what separates the two is white space of any kind, not only blank and tab
        line = key + (grammar.blanks(r, 1, 2) if r.chance(0.8) else r.pick(["\x0c", "\x0b", " \x0c", "\r", "\x0b\t"])) + text
        prev = world["lines"][pos - 1][0] if pos > 0 else None
        if prev in ("entry", "entry_plain", "cont"):
            return line, None, kind      # by the rule of 5.1 this line continues the previous value
    return line, kind, kind


def target_path(world):
    if world["mode"] == "single":
        return "$ROOT/single/bad.conf"
    lw = world["layered"]
    model = gen.model_of(lw)
    return model["consulted"][world["member"] % len(model["consulted"])]


def plan_for(world, positions):
    lines = [l for k, l in world["lines"]]
    out = []
    expect = None
    for idx in range(len(lines) + 1):
        if idx in positions:
            inj, kind, _ = injection(world, idx)
            out.append(inj)
            if kind and expect is None:
                expect = (kind, len(out))
        if idx < len(lines):
            out.append(lines[idx])
    content = grammar.render(out)
    D, C = world["D"], world["C"]
    tpath = target_path(world)
    tree = [{"t": "f", "p": "$ROOT/stale/good.conf", "c": "".join("k%d=v\n" % n for n in range(40))},
            {"t": "f", "p": "$ROOT/stale/bad.conf", "c": "a=1\n" * 6 + "[oops\n"}]
    ops = []
    cbv = world["ep"].endswith("Cb")
    if world["mode"] == "single":
        tree.append({"t": "f", "p": tpath, "c": content})
        read = {"ep": "readFile", "path": tpath, "delim": D, "comment": C}
    else:
        lw = world["layered"]
        nodes = []
        for n in lw["nodes"]:
            if norm(n["p"]) == tpath:
                nodes.append({"p": n["p"], "t": "f", "c": content})
            else:
                nodes.append(n)
        tree += gen.tree_plan(nodes)
        read = dict(lw["read"])
        read["ep"] = world["ep"][:-2] if cbv else world["ep"]
        ops += gen.prologue_ops(read)
    for s in world["stale"]:
        nm, _, dk = s.partition(":")
        sd = {"": "=", "blank": " \t", "mixed": " =", "none": ""}[dk]
        ops.append({"op": "readFile", "o": 7, "path": "$ROOT/stale/%s.conf" % nm, "delim": sd, "comment": "#;" if dk else "#", "tag": "stale"})
        ops.append({"op": "free", "k": 7})
    cb = None
    if cbv:
        cb = {}
        if world.get("nested"):
            from . import c06
            cb = {"nested": c06.POLICY}
            tree += c06.POLICY_NODES
    ops += gen.layered_read_ops(read, cb=cb, init=world["init"])
    n_loader = len(ops)
    ops.append({"op": "errLocation", "tag": "loc"})
    ops.append({"op": "errLocation", "tag": "loc_again"})      # asking twice gives the same answer
    if world.get("repeat_under_budget"):
        # a daemon that re-reads a still-broken configuration on every reload: with only a few spare descriptors, the
        # tenth failure is reported like the first
        ops.append({"op": "fd_budget", "extra": 8, "tag": "budget"})
        for _ in range(12):
            for o_ in gen.layered_read_ops(read, cb=cb, init=world["init"]):
                o_ = dict(o_)
                if o_.get("tag") == "read":
                    o_["tag"] = "read_rep"
                else:
                    o_.pop("tag", None)
                ops.append(o_)
            ops.append({"op": "errLocation", "tag": "loc_rep"})
    ops.append({"op": "readFile", "o": 8, "path": "$ROOT/nosuch/file.conf", "delim": D, "comment": C, "tag": "missing"})
    # missing in another way: a path component is a regular file (ENOTDIR), the name is too long for the file system
    ops.append({"op": "readFile", "o": 8, "path": "$ROOT/stale/good.conf/child.conf", "delim": D, "comment": C, "tag": "missing"})
    ops.append({"op": "readFile", "o": 8, "path": "$ROOT/stale/" + "n" * 300 + ".conf", "delim": D, "comment": C, "tag": "missing"})
    if world.get("errstrings"):
        for c in range(25):
            ops.append({"op": "errString", "code": c, "tag": "es%d" % c})
    if world.get("loader_thread"):
        return {"cfg": dict(world["cfg"], stack_kb=8192), "tree": tree, "ops": ops[:n_loader], "epilogue": ops[n_loader:]}, expect
    return {"cfg": world["cfg"], "tree": tree, "ops": ops}, expect


def positions_list(world):
    n = len(world["lines"])
    pl = [[p] for p in range(n + 1)]
    if n >= 2:
        r = Rng(world["inject_seed"])
        a = r.randrange(n)
        b = r.randrange(a + 1, n + 1)
        pl.append([a, b])
    pl.append([])
    return pl


def build_plans(world):
    return [plan_for(world, set(ps))[0] for ps in positions_list(world)]


def check(world, plans, results):
    v = Verdict()
    tpath = target_path(world)
    sigs = set()
    for k, (ps, res) in enumerate(zip(positions_list(world), results)):
        plan, expect = plan_for(world, set(ps))
        if crash_check(v, res, "plan %d" % k):
            v.sig = sig_of("crash", v.classes())
            return v
        rd = tagged(plan, res, "read")
        loc = tagged(plan, res, "loc")
        from .base import all_tagged
        if "epilogue" in plan:
            v.probe("location_asked_on_another_thread_than_the_read")
        for mi, miss in enumerate(all_tagged(plan, res, "missing") + all_tagged(plan, res, "missing", "epilogue")):
            if miss["rc"] != 3:
                v.fail("missing-file", "reading a missing file (%s) returned %r instead of file-not-found" % (["no such directory", "a path component is a regular file", "name longer than NAME_MAX"][mi], miss["rc"]))
        if expect is None:
            if rd["rc"] != 0:
                v.fail("spurious", "plan %d (inject at %r): no malformed line by the rules of 5.1, but the read failed with %r at %r" % (k, ps, rd["rc"], loc))
            continue
        kind, line = expect
        if rd["rc"] != CODES[kind]:
            v.fail("code", "plan %d: %s at line %d of %s: expected code %d, got %r" % (k, kind, line, tpath, CODES[kind], rd["rc"]))
            continue
        if norm(loc.get("file") or "") != tpath or loc.get("line") != line:
            v.fail("location", "plan %d: %s at line %d of %s: econf_errLocation says %r line %r" % (k, kind, line, tpath, loc.get("file"), loc.get("line")))
        from .base import all_tagged as _all
        reps = _all(plan, res, "read_rep")
        if reps:
            v.probe("failing_read_repeated_under_a_descriptor_budget")
            locs = _all(plan, res, "loc_rep")
            for n_, (rr_, ll_) in enumerate(zip(reps, locs)):
                if rr_["rc"] != rd["rc"] or norm(ll_.get("file") or "") != norm(loc.get("file") or "") or ll_.get("line") != loc.get("line"):
                    v.fail("repeat", "plan %d: the same failing read, repeated (%d. time, few spare descriptors), reports code %r at %r:%r instead of %r at %r:%r" % (k, n_ + 2, rr_["rc"], ll_.get("file"), ll_.get("line"), rd["rc"], loc.get("file"), loc.get("line")))
                    break
        loc2 = tagged(plan, res, "loc_again")
        if loc2 is not None and (norm(loc2.get("file") or "") != norm(loc.get("file") or "") or loc2.get("line") != loc.get("line")):
            v.fail("location:again", "plan %d: econf_errLocation answered %r line %r, asked again %r line %r" % (k, loc.get("file"), loc.get("line"), loc2.get("file"), loc2.get("line")))
        if rd["out"] == "obj":
            if world["ep"].startswith("readDirsHistory"):
                v.fail("partial", "plan %d: a history was handed back by a failing read" % k)
            elif not empty_dump(tagged(plan, res, "dump")):
                v.fail("partial", "plan %d: a partial configuration was handed back by a failing read" % k)
        prevk = world["lines"][ps[0] - 1][0] if ps and ps[0] > 0 else "start"
        posc = "first" if ps[0] == 0 else ("last" if ps[0] == len(world["lines"]) else "middle")
        role = "single" if world["mode"] == "single" else ("main" if world["member"] == 0 and gen.model_of(world["layered"])["main"] else "dropin")
        opt = "+".join(world.get("layered", {}).get("read", {}).get("opts", {}).get("extra", [])) if world["mode"] == "tree" else ""
        sigs.add((grammar.dclass(world["D"]), kind, prevk, posc, world["ep"], role, len(ps), opt))
        if opt:
            v.probe("with_option_" + opt)
        if world["mode"] == "tree":
            m = gen.model_of(world["layered"])
            if tpath in m["masked"]:
                v.probe("error_in_masked_dropin")
            if tpath == m["consulted"][-1] and len(m["consulted"]) > 1:
                v.probe("error_in_last_dropin")
        if prevk in ("comment", "cont"):
            v.probe("error_after_" + prevk)
        if len(ps) > 1:
            v.probe("two_malformed_lines")
        if world.get("boundary_line"):
            v.probe("line_length_at_buffer_boundary")
    if world.get("errstrings"):
        plan = plans[0]
        res = results[0]
        texts = []
        for c in range(25):
            t = tagged(plan, res, "es%d" % c)["v"] or ""
            texts.append(t)
            if not t or not all(kw in t.lower() for kw in KEYWORDS[c]):
                v.fail("errstring", "message of code %d is %r, expected it to mention %r" % (c, t, KEYWORDS[c]))
        if len(set(texts)) != 25:
            v.fail("errstring", "messages are not pairwise distinct")
        v.probe("errstring_table_checked")
    v.nontrivial = len(world["lines"]) >= 3
    v.sig = sig_of(sorted(sigs))
    v.probe("executions", len(results))
    return v


def repair(world):
    out = []
    prev = None
    for k, l in world["lines"]:
        if k == "cont" and prev not in ("entry_plain", "cont"):
            continue
        out.append([k, l])
        prev = k
    world["lines"] = out


def shrink_lists(world):
    out = [("lines",), ("stale",)]
    if world.get("layered"):
        out.append(("layered", "nodes"))
    return out
