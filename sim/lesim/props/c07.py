# C07 - a written configuration reads back identically.
from .. import gen, grammar
from ..models import nz
from .base import Verdict, sig_of, crash_check, tagged

ID = "C07"
LEVEL = "exploration"
RUNS = (60000, 1200000)
RULE = ("one seeded source object - a setter history (any interleaving of group-less and sectioned keys, overwrites, re-opened "
        "sections, typed setters, > 8 entries) on one of three constructors, or a parsed full-grammar 5.1 file - whose texts all "
        "have the unambiguous form of DESIGN.md 5.4, written with delimiter in {=,:,space} and comment in {#,;} through the real "
        "file layer and read back under seeded short reads / heap fill; non-trivial = at least one section, one group-less key and "
        ">= 3 entries; distinct = distinct (source kind, delimiter, comment, section interleaving pattern, value-kind set)")

BLc = " \t"


def plain_value(rng, d, c, allow_inner=True, ex=()):
    for _ in range(30):
        v = grammar.token(rng, BLc + c + '"', 1, 10, first_forbid=d, inner_blank=allow_inner, extra=ex)
        if v and v[0] not in BLc and v[-1] not in BLc and v != "_none_":
            return v
    return "v"


def gen_value(rng, d, c, ex=()):
    r = rng.random()
    if r < 0.03:
        return rng.pick(["L" * 300, "w" * 1100, "ab" * 1500])       # long single-line values (far below BUFSIZ)
    if r < 0.04:
        # values and continuation lines longer than the 8 KiB stdio buffer (compared through the string
        # getter only; the extended getter's own BUFSIZ limit is C14's subject)
        big = rng.pick([8185, 8191, 8192, 8200, 20000])
        if d == " " or rng.chance(0.5):
            return "B" * big
        return "first\n   " + "c" * big + ("\n\tlast" if rng.chance(0.5) else "")
    if r < 0.12:
        return rng.pick([None, ""])
    if d == " " and r >= 0.90:
        # delimiter ' ': a continuation line is delimiter-free only if it contains no space at all - indented by
        # tabs, words separated by tabs
        lines = [plain_value(rng, d, c, ex=ex)]
        for _ in range(rng.randint(1, 3)):
            words = [grammar.token(rng, d + c + '"' + BLc, 1, 6, first_forbid="[", extra=ex) for _ in range(rng.randint(1, 3))]
            lines.append("\t" * rng.randint(1, 2) + "\t".join(words))
        return "\n".join(lines)
    if r < 0.80 or d == " ":
        return plain_value(rng, d, c, ex=ex)
    lines = [plain_value(rng, d, c, ex=ex)]
    for _ in range(rng.randint(1, 3)):
        ct = grammar.token(rng, d + c + '"', 1, 8, first_forbid="[" + BLc, inner_blank=True, extra=ex).rstrip(BLc) or "c"
        lines.append(grammar.blanks(rng, 1, 3) + ct)
    if len(lines) >= 3 and rng.chance(0.2):
        # a paragraph break inside the value: an INTERIOR continuation line that holds nothing but its indentation
        lines.insert(rng.randrange(2, len(lines)), grammar.blanks(rng, 1, 3))
    return "\n".join(lines)


def gen_world(rng, i, tier):
    d = rng.pick(["=", ":", " "])
    c = rng.pick(["#", ";"])
    src = rng.pick(["built", "built", "parsed"])
    w = {"kind": "roundtrip", "src": src, "d": d, "c": c, "cfg": gen.io_cfg(rng)}
    # the target of the write may already exist (an older, longer version of the file)
    w["preexisting"] = rng.pick([None, None, "long", "garbage"])
    # the directory argument of the write: plain, with a trailing slash, or a symbolic link to the directory
    w["sibling"] = rng.pick([None, None, None, ".tmp", "~", ".new", ".bak", ".lock"])
    w["w2name"] = rng.pick(["w2.conf", "w2.conf", "w2.conf", "n" * 250 + ".conf", "n" * 247 + ".conf"])     # names up to NAME_MAX
    w["outdir"] = rng.pick(["$ROOT/out", "$ROOT/out", "$ROOT/out/", "$ROOT/outlink", "$ROOT/outlink/", "$ROOT/./out//"])
    if src == "built":
        w["ctor"] = rng.pick(["newKeyFile", "newIniFile", "newOpts"])
        ex = grammar.HIGH if rng.chance(0.25) else ()       # text that is not ASCII: bytes with the top bit set
        secs = [None] + [grammar.token(rng, "]" + c, 1, 6, first_forbid="[" + BLc, inner_blank=True, extra=ex).rstrip(BLc) or "S" for _ in range(rng.randint(1, 3))]
        secs = [s for s in secs if s != "_none_"]
        if rng.chance(0.12):
            secs.append(rng.pick(["Host web ", " lead", " both ", "tab\t"]))        # blanks at the ends of a section name belong to it
        if rng.chance(0.08):
            secs.append(rng.pick(["_oNne_", "_nonf>", "a,one_"]))        # texts with the hash of the reserved placeholder
        if rng.chance(0.12):
            secs.append("[" + rng.pick(["opt", "x y", "a.b"]))      # a name may start with '[' as long as it does not also end with ']'
            if rng.chance(0.5):
                secs.append(secs[-1][1:])                            # ... next to the section of the same name without it
        keys = [grammar.token(rng, BLc + d + c + '"', 1, 6, first_forbid="[", extra=ex) for _ in range(rng.randint(1, 5))]
        keys = [k for k in keys if k != "_none_"] or ["k"]
        sets = []
        for _ in range(rng.pick([1, 3, 6, 10, 16, 30])):
            ty = rng.pick(["String"] * 6 + ["Int", "UInt64", "Bool", "Double"])
            s, k = rng.pick(secs), rng.pick(keys)
            if ty == "String":
                sets.append([ty, s, k, gen_value(rng, d, c, ex)])
            elif ty == "Int":
                sets.append([ty, s, k, rng.randrange(-10**6, 10**6)])
            elif ty == "UInt64":
                sets.append([ty, s, k, rng.randrange(0, 2**64)])
            elif ty == "Bool":
                sets.append([ty, s, k, rng.pick(["yes", "no", "TRUE", "0"])])
            else:
                sets.append([ty, s, k, rng.pick([0.5, -3.25, 1e20, 123456.0])])
        if rng.chance(0.06):
            # the first line of the written file starts with EF BB BF - bytes of a key, not a mark to be dropped
            sets.insert(0, ["String", None, "\xef\xbb\xbf" + rng.pick(["name", "k", "\xef\xbb\xbf"]), gen_value(rng, d, c, ex)])
        w["sets"] = sets
    else:
        D = d if d != " " else rng.pick([" "])
        ql = []
        lines, kinds, pairs = grammar.gen_conventional(rng, D, c, rng.randint(1, 40), cont_trail=False, quoted_out=ql)
        w["lines"] = [[k, l] for k, l in zip(kinds, lines)]
        if rng.chance(0.4):
            # a parsed object that is then changed through the setters (new group-less keys, new keys in existing and
            # new sections, overwrites) before it is written
            fsecs = [p[0] for p in pairs if p[0] is not None and not p[0].startswith("[")]
            tsecs = [None, None] + fsecs[:3] + ["Zed"]
            tkeys = [p[1] for p in pairs][:3] + ["added", "k2"]
            tkeys = [k for k in tkeys if not any(ch in k for ch in BLc + d + c + '"') and not k.startswith("[")] or ["added"]
            w["sets_after"] = [["String", rng.pick(tsecs), rng.pick(tkeys), plain_value(rng, d, c)] for _ in range(rng.randint(1, 4))]
        # the tags may be changed on the object after it was read: write and read back with OTHER characters,
        # provided no byte of the file could be taken for them
        d2, c2 = rng.pick(["=", ":"]), rng.pick(["#", ";"])
        # (text between the quotes of a value that was read quoted does not count: it is written quoted again)
        outside = [l if n_ not in ql else l[:l.index('"')] + l[l.rindex('"') + 1:] for n_, l in enumerate(lines)]
        text = "".join(outside) + "".join(x for st in w.get("sets_after", []) for x in st[1:] if isinstance(x, str))
        if rng.chance(0.5) and d != " " and (d2 != d or c2 != c) and (d2 == d or d2 not in text) and (c2 == c or c2 not in text):
            w["d2"], w["c2"] = d2, c2
    return w


def build_plans(world):
    d, c = world["d"], world["c"]
    tree = [{"t": "d", "p": "$ROOT/out"}, {"t": "l", "p": "$ROOT/outlink", "to": "$ROOT/out"}]
    od = world.get("outdir", "$ROOT/out")
    if world.get("preexisting") == "long":
        tree.append({"t": "f", "p": "$ROOT/out/w.conf", "c": "".join("old%d%sstale%d\n[oldsec%d]\n" % (n, d, n, n) for n in range(60))})
    elif world.get("preexisting") == "garbage":
        tree.append({"t": "f", "p": "$ROOT/out/w.conf", "c": "[unterminated\n" * 200})
    ops = []
    if world["src"] == "built":
        ops.append({"op": world["ctor"], "o": 0, "delim": ord(d), "comment": ord(c), "options": None, "tag": "ctor"})
        for ty, s, k, val in world["sets"]:
            ops.append({"op": "set", "k": 0, "type": ty, "group": s, "key": k, "v": val, "tag": "set"})
    else:
        tree.append({"t": "f", "p": "$ROOT/in.conf", "c": grammar.render([l for k, l in world["lines"]])})
        ops.append({"op": "readFile", "o": 0, "path": "$ROOT/in.conf", "delim": d, "comment": c, "tag": "ctor"})
        for ty, s_, k_, val in world.get("sets_after", []):
            ops.append({"op": "set", "k": 0, "type": ty, "group": s_, "key": k_, "v": val, "tag": "set", "need": ["k"]})
    if world.get("d2"):
        d, c = world["d2"], world["c2"]
    ops.append({"op": "setTags", "k": 0, "delim": ord(d), "comment": ord(c)})
    ops.append({"op": "dump", "k": 0, "ext": True, "tag": "before"})
    # a sibling in the same directory whose name EXTENDS the names written below (w2.conf.tmp, w2.conf~, w2.conf.new):
    # written first, read back last - the writes in between are none of its business
    sib = world.get("sibling")
    if sib:
        ops.append({"op": "write", "k": 0, "dir": od, "name": "w2.conf" + sib, "tag": "write_sib"})
    ops.append({"op": "write", "k": 0, "dir": od, "name": "w.conf", "readback": True, "tag": "write"})
    ops.append({"op": "readFile", "o": 1, "path": "$ROOT/out/w.conf", "delim": d, "comment": c, "tag": "reread"})
    ops.append({"op": "dump", "k": 1, "ext": True, "tag": "after"})
    # the object is not used up by a write: a second file written from it must read back identically, too
    w2 = world.get("w2name", "w2.conf") if not sib else "w2.conf"
    ops.append({"op": "write", "k": 0, "dir": od, "name": w2, "readback": True, "tag": "write2"})
    ops.append({"op": "readFile", "o": 2, "path": "$ROOT/out/" + w2, "delim": d, "comment": c, "tag": "reread2"})
    ops.append({"op": "dump", "k": 2, "ext": True, "tag": "after2"})
    if sib:
        ops.append({"op": "readFile", "o": 3, "path": "$ROOT/out/w2.conf" + sib, "delim": d, "comment": c, "tag": "reread_sib"})
        ops.append({"op": "dump", "k": 3, "ext": True, "tag": "after_sib"})
        ops.append({"op": "free", "k": 3})
    ops.append({"op": "free", "k": 0})
    ops.append({"op": "free", "k": 1})
    ops.append({"op": "free", "k": 2})
    return [{"cfg": world["cfg"], "tree": tree, "ops": ops}]


def view(dump):
    """section -> ordered list of (key, text, single_line, comment_before, comment_after) using first definitions"""
    out = {}
    secs = [(None, dump.get("nogroup", {}))] + [(g["g"], g) for g in dump.get("groups", [])]
    for s, g in secs:
        if g.get("rc") != 0:
            continue
        lst = []
        for k in g["keys"]:
            x = k.get("x", {})
            text = nz(k.get("v"))
            lst.append((k["k"], text, "\n" not in text, nz(x.get("cb")), nz(x.get("ca"))))
        if lst:
            out[s] = lst
    return out


def check(world, plans, results):
    v = Verdict()
    plan, res = plans[0], results[0]
    if crash_check(v, res, "write/read-back"):
        v.sig = sig_of("crash", v.classes())
        return v
    ctor = tagged(plan, res, "ctor")
    if ctor["rc"] != 0:
        v.fail("ctor", "source object could not be created/parsed: rc=%r" % ctor["rc"])
        return v
    from .base import all_tagged
    for r in all_tagged(plan, res, "set"):
        if r["rc"] != 0:
            v.fail("set", "setter failed with %r" % r["rc"])
            return v
    wr = tagged(plan, res, "write")
    if wr["rc"] != 0:
        v.fail("write:rc", "econf_writeFile failed with %r" % wr["rc"])
        return v
    rr = tagged(plan, res, "reread")
    before = view(tagged(plan, res, "before"))
    if rr["rc"] != 0:
        if not before and rr["rc"] in (0,):
            pass
        v.fail("reread:rc", "reading the written file failed with %r; written bytes: %r" % (rr["rc"], wr.get("bytes", "")[:200]))
        return v
    after = view(tagged(plan, res, "after"))
    w2, rr2 = tagged(plan, res, "write2"), tagged(plan, res, "reread2")
    if w2["rc"] != 0 or rr2["rc"] != 0:
        v.fail("second-write", "second write of the same object / its read-back failed: %r / %r" % (w2["rc"], rr2["rc"]))
    elif view(tagged(plan, res, "after2")) != after:
        v.fail("second-write", "a second file written from the same object reads back differently from the first: bytes %r vs %r" % (wr.get("bytes", "")[:200], w2.get("bytes", "")[:200]))
    if world.get("sibling"):
        ws, rs_ = tagged(plan, res, "write_sib"), tagged(plan, res, "reread_sib")
        if ws["rc"] != 0 or rs_["rc"] != 0:
            v.fail("sibling", "the file written first under the name w2.conf%s cannot be read back after the other writes: write %r, read %r" % (world["sibling"], ws["rc"], rs_["rc"]))
        elif view(tagged(plan, res, "after_sib")) != after:
            v.fail("sibling", "the file written first under the name w2.conf%s reads back differently after the other writes" % world["sibling"])
        v.probe("sibling_file_whose_name_extends_the_target")
    if set(before) != set(after):
        v.fail("sections", "key-bearing sections differ: before %r after %r; written: %r" % (sorted(map(str, before)), sorted(map(str, after)), wr.get("bytes", "")[:300]))
    else:
        for s in before:
            kb = [e[0] for e in before[s]]
            ka = [e[0] for e in after[s]]
            if kb != ka:
                v.fail("keys", "keys of section %r differ: before %r after %r" % (s, kb, ka))
                break
            fb, fa = {}, {}
            for e in before[s]:
                fb.setdefault(e[0], e)
            for e in after[s]:
                fa.setdefault(e[0], e)
            for k in fb:
                if fb[k][1] != fa[k][1]:
                    v.fail("value", "value of %r/%r: before %r after %r" % (s, k, fb[k][1], fa[k][1]))
                elif fb[k][2] and (fb[k][3] != fa[k][3] or fb[k][4] != fa[k][4]):
                    # duplicates of a key share the first definition's comments only when the key is unique
                    if kb.count(k) == 1:
                        v.fail("comments", "comments of %r/%r: before %r/%r after %r/%r" % (s, k, fb[k][3], fb[k][4], fa[k][3], fa[k][4]))
            if not v.ok:
                break
    nent = sum(len(x) for x in before.values())
    v.nontrivial = nent >= 3 and None in before and len(before) >= 2
    pattern = []
    if world["src"] == "built":
        last = object()
        for ty, s, k, val in world["sets"]:
            cur = "n" if s is None else "s"
            if cur != last:
                pattern.append(cur)
                last = cur
    vk = set()
    for s in before:
        for e in before[s]:
            vk.add("empty" if e[1] == "" else ("multi" if not e[2] else "plain"))
            if e[3]:
                vk.add("cb")
            if e[4]:
                vk.add("ca")
    shape = [(0 if sec is None else 1, min(len(lst), 4)) for sec, lst in sorted(before.items(), key=lambda kv: str(kv[0]))]
    v.sig = sig_of(world["src"], world["d"], world["c"], "".join(pattern)[:12], sorted(vk), min(nent, 20), shape[:6])
    if "ns" in "".join(pattern) or "sn" in "".join(pattern):
        v.probe("groupless_after_section" if "sn" in "".join(pattern) else "section_after_groupless")
    if any(len(x) > 8 for x in before.values()) or nent > 8:
        v.probe("more_than_8_entries")
    if "multi" in vk:
        v.probe("multiline_value")
    if "cb" in vk or "ca" in vk:
        v.probe("comments_present")
    if world.get("d2"):
        v.probe("tags_changed_after_read")
    if world.get("preexisting"):
        v.probe("target_file_existed_before")
    return v


def repair(world):
    """keep a shrunk file inside the grammar: a continuation line needs its entry"""
    if world.get("lines") is None:
        return
    out = []
    prev = None
    for k, l in world["lines"]:
        if k == "cont" and prev not in ("entry_plain", "cont"):
            continue
        out.append([k, l])
        prev = k
    world["lines"] = out


def shrink_lists(world):
    return [("sets",)] if world.get("sets") is not None else [("lines",)]
