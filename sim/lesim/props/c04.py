# C04 - no file content can corrupt memory, crash or hang read, query, merge or write.
# Simulation view: the stored files suffer storage faults (torn / truncated / zero-filled /
# bit-flipped / duplicated sectors / foreign content) and the whole consumer workload runs on them.
from .. import gen, grammar
from ..core import Rng
from .base import Verdict, sig_of, crash_check, rc_in_enum, leak_check

ID = "C04"
LEVEL = "exploration"
RUNS = (7000, 150000)
RULE = ("1-3 stored files, each rendered from the full 5.1 grammar, from the option-specific shapes (repeated keys, indented lines), "
        "written by the library itself, or unstructured (structural characters only, NUL/8-bit bytes, 64 KiB line), then hit by "
        "0-3 seeded storage faults (truncate, bit flip, zero range, duplicated/swapped sectors, garbage splice, foreign file, CRLF, "
        "missing final newline); read directly and as members of a tree with every delimiter/comment set and the parsing options; "
        "every listing and typed/defaulted/extended getter on every listed key, all merges in both roles, write + read-back (also "
        "after tearing the written file); oracle: ASan/UBSan silent, return codes within the enum, step budget; "
        "non-trivial = at least one successful read with >= 2 keys; distinct = distinct (delimiter class, comment set, option, "
        "base kinds, fault kinds, read-success pattern)")

FOREIGN = ["#!/bin/sh\nexec true \"$@\"\n", "{\"a\": [1, 2, {\"b\": null}]}\n", "<?xml version=\"1.0\"?>\n<a b=\"c\">[d]</a>\n",
           "\x7fELF\x02\x01\x01\x00" + "\x00" * 24 + "[\x00=\x00]\n", "\xef\xbb\xbfkey=value\n", "[[[[\n]]]]\n====\n\"\"\"\n####\n", "a\rb\rc=d\r"]
STRUCT = "[]=#;\"\n \t:\\"
OPTS = [None, "JOIN_SAME_ENTRIES=1", "PYTHON_STYLE=1", "JOIN_SAME_ENTRIES=1;PYTHON_STYLE=1"]


def base_file(rng, D, C):
    r = rng.random()
    if r < 0.45:
        lines, kinds, pairs = grammar.gen_conventional(rng, D, C, rng.randint(1, 30), rich=True)
        return "grammar", grammar.render(lines, final_newline=rng.chance(0.9))
    if r < 0.60:
        # repeated keys / indented lines (option-specific shapes)
        d = D[0] if D else " "
        out = []
        for _ in range(rng.randint(2, 14)):
            k = rng.pick(["k", "key", "list", "x"])
            t = rng.random()
            if t < 0.2:
                if rng.chance(0.3):
                    out.append("# about the section")          # a comment block in front of a header ...
                out.append("[%s]%s" % (rng.pick(["A", "B", "A"]), rng.pick(["", "", " # header note"])))      # ... that carries a trailing comment
            elif t < 0.4:
                out.append("%s%s" % (k, d))
            elif t < 0.6:
                out.append("%s%s%s %s" % (rng.pick(["  ", "\t", " "]), rng.pick(["cont", "x=y", "more text", "#c"]), "", rng.pick(["", "# c"])))
            else:
                out.append("%s%s%s%s" % (k, d, rng.pick(["v1", "v 2", "\"q\"", "1"]), rng.pick(["", " # trailing"])))
        return "options", "\n".join(out) + "\n"
    if r < 0.605:
        # comment volume well above a small thread stack (every single comment stays below BUFSIZ)
        d = D[0] if D else " "
        c = C[0]
        n = rng.pick([150, 300])
        out = []
        for k in range(n):
            for _ in range(rng.pick([1, 2, 8])):
                out.append(c + "x" * rng.pick([700, 3000, 6000]))
            out.append("k%d%sv%d %s%s" % (k, d, k, c, "t" * rng.pick([10, 2000])) if D else "k%d" % k)
        return "comment-volume", "\n".join(out) + "\n"
    if r < 0.615:
        # sections that are opened again later, with other sections in between: the merge walks such a base group by group
        d = D[0] if D else " "
        secs = rng.subset(["A", "B", "C", "D"], 2, 4)
        out = ["g%sv" % d] if rng.chance(0.3) else []
        seq = secs + [rng.pick(secs) for _ in range(rng.randint(1, 4))]
        for n_, s_ in enumerate(seq):
            out.append("[%s]" % s_)
            for k_ in rng.subset(["k", "key", "x", "y%d" % n_], 1, 3):
                out.append("%s%sv%d" % (k_, d, n_))
        return "reopened-sections", "\n".join(out) + "\n"
    if r < 0.66:
        # counts just past allocation steps: many sections, many keys in one section, many group-less keys
        d = D[0] if D else " "
        n = rng.pick([7, 8, 9, 15, 16, 17, 31, 32, 33, 64, 65])
        kind = rng.pick(["sections", "sections+global", "keys", "global"])
        out = []
        if kind in ("sections+global", "global"):
            out += ["g%d%sv" % (k, d) for k in range(n if kind == "global" else 2)]
        if kind.startswith("sections"):
            base = rng.pick(["s", "t"])
            for k in range(n):
                out += ["[%s%d]" % (base, k), "k%sv%d" % (d, k)]
        if kind == "keys":
            out += ["[one]"] + ["k%d%sv" % (k, d) for k in range(n)]
        return "counts", "\n".join(out) + "\n"
    if r < 0.715:
        # hand-picked edge lines for the parser's pointer walks, in seeded order; the last line may lack its newline
        d = D[0] if D else "="
        c = C[0]
        pool = ["key", "key  ", "key \t", "key %s" % d, "key%s" % d, "key%s " % d, "%s" % d, "%s v" % d, " %s" % d, "  ", "\t", "[", "]", "[]", "[ ]", "[a]x", "[a] ", " [a]", "[a", "a]", "[[a]]",
                "\"", "k%s\"" % d, "k%s\"\"" % d, "k%s\"a" % d, "k%sa\"" % d, "k%s \" a \" " % d, c, "%s%s" % (c, c), "k%sv %s" % (d, c), "k%sv %s \"" % (d, c), "k%s\"v %s\"" % (d, c),
                "k%s%sv" % (d, d), "k %s %s v" % (d, d), "  cont", "\tcont %s x" % c, " %s" % c, "k%sv" % d, "k%sv" % d, "key text", "key  text  ", "k%s" % (d * 3), "\x00", "k%s\x00v" % d,
                "k" * 40 + d, "[" + "s" * 40 + "]"]
        lines = [rng.pick(pool) for _ in range(rng.randint(0, 10))]
        if rng.chance(0.5):
            # what the file ends with matters to the line reader: a short tail line, often after a line that is no entry
            if rng.chance(0.6):
                lines.append(rng.pick(["", c + " x", "[a]"]))
            lines.append(rng.pick(["key  ", "key \t ", "key", "key ", "k%s" % d, "k%s  " % d, "  ", "[a]  ", "k%sv  " % d, "\"", "k%s\"" % d, c, "k%sv %s" % (d, c)]))
        if rng.chance(0.15):
            # make the last line end exactly at a buffer-size boundary of the line reader
            tail = rng.pick(["key  ", "key", "k%sv" % d, "  ", "[a]", c])
            size = rng.pick([8191, 8192, 8193, 16383, 127, 128])
            lines.append("p" * max(0, size - len(tail) - sum(len(x) + 1 for x in lines[-0:0])) + tail) if rng.chance(0.5) else lines.append(tail.rjust(size, "q"))
        return "edge-lines", "\n".join(lines) + ("\n" if rng.chance(0.5) else "")
    if r < 0.76:
        n = rng.randint(1, 200)
        return "structural", "".join(rng.pick(STRUCT) for _ in range(n))
    if r < 0.84:
        n = rng.randint(1, 300)
        return "bytes", "".join(chr(rng.randrange(256)) for _ in range(n))
    if r < 0.90:
        big = rng.pick([8190, 8191, 8192, 8193, 20000, 65536])
        kind = rng.pick(["key", "value", "comment", "section", "noeol"])
        if kind == "key":
            return "long", "k" * big + "=v\n"
        if kind == "value":
            return "long", "k=" + "v" * big + "\n  " + "c" * big + "\n"
        if kind == "comment":
            return "long", "#" + "c" * big + "\nk=v #" + "t" * big + "\n"
        if kind == "section":
            return "long", "[" + "s" * big + "]\nk=v\n"
        return "long", "a=" + "b" * big
    return "foreign", rng.pick(FOREIGN)


def corrupt(rng, c):
    how = rng.pick(["truncate", "bitflip", "zero", "dup", "swap", "splice", "crlf", "nonl", "foreign"])
    n = len(c)
    if how == "truncate":
        return how, c[:rng.randrange(n + 1)]
    if how == "bitflip" and n:
        i = rng.randrange(n)
        return how, c[:i] + chr(ord(c[i]) ^ (1 << rng.randrange(8))) + c[i + 1:]
    if how == "zero" and n:
        a = rng.randrange(n)
        b = rng.randint(1, 64)
        return how, c[:a] + "\x00" * min(b, n - a) + c[a + b:]
    if how == "dup" and n:
        a = rng.randrange(n)
        b = rng.randint(1, 64)
        return how, c[:a + b] + c[a:a + b] + c[a + b:]
    if how == "swap" and n > 4:
        b = rng.randint(1, max(1, n // 4))
        a = rng.randrange(max(1, n - 2 * b))
        return how, c[:a] + c[a + b:a + 2 * b] + c[a:a + b] + c[a + 2 * b:]
    if how == "splice":
        a = rng.randrange(n + 1)
        g = "".join(chr(rng.randrange(256)) for _ in range(rng.randint(1, 24))) if rng.chance(0.5) else "".join(rng.pick(STRUCT) for _ in range(rng.randint(1, 24)))
        return how, c[:a] + g + c[a:]
    if how == "crlf":
        return how, c.replace("\n", "\r\n")
    if how == "nonl":
        return how, c.rstrip("\n")
    if how == "foreign":
        return how, rng.pick(FOREIGN)
    return "none", c


def gen_world(rng, i, tier):
    D = grammar.DSETS[i % 7]
    C = grammar.CSETS[(i // 7) % 3]
    opt = OPTS[(i // 21) % 4]
    files = []
    for _ in range(rng.randint(1, 3)):
        kind, c = base_file(rng, D, C)
        faults = []
        for _ in range(rng.pick([0, 0, 1, 1, 2, 3])):
            how, c = corrupt(rng, c)
            faults.append(how)
        files.append({"kind": kind, "faults": faults, "c": c})
    if rng.chance(0.15):
        # "any delimiter set, any comment set": white space, structural characters, repeated members, hundreds of bytes
        if rng.chance(0.6):
            C = rng.pick(["\t", " ", "#\t", " ;", "\n", "=", "[", "]", "\"", "#" * 300, "\\", "k"])
        if rng.chance(0.6):
            D = rng.pick(["=:" * 200, "\n", "#", "[]", "\"", "\\", "=" * 257, " \t\n\v\f\r=", "k"])
    w = {"kind": "storage", "D": D, "C": C, "opt": opt, "files": files, "cfg": gen.io_cfg(rng), "small_stack": rng.chance(0.25),
         "tear": [rng.pick(["truncate", "zero", "bitflip", "dup"]), rng.randrange(4096), rng.randrange(1, 64)]}
    return w


PATHS = ["$ROOT/d/app.conf", "$ROOT/d/app.conf.d/10-x.conf", "$ROOT/e/app.conf.d/20-y.conf"]


def build_plans(world):
    D, C = world["D"], world["C"]
    files = world["files"]
    tree = [{"t": "d", "p": "$ROOT/out"}, {"t": "d", "p": "$ROOT/d"}, {"t": "d", "p": "$ROOT/e"}]
    ops = []
    n = len(files)
    for k, f in enumerate(files):
        tree.append({"t": "f", "p": PATHS[k], "c": f["c"]})
    for k in range(n):
        ops.append({"op": "readFile", "o": k, "path": PATHS[k], "delim": D, "comment": C, "tag": "read%d" % k})
        ops.append({"op": "exercise", "k": k, "need": ["k"], "tag": "ex"})
    slot = 10
    for a in range(n):
        for b in range(n):
            ops.append({"op": "merge", "o": slot, "usr": a, "etc": b, "need": ["usr", "etc"], "tag": "merge"})
            ops.append({"op": "exercise", "k": slot, "need": ["k"], "tag": "ex"})
            ops.append({"op": "write", "k": slot, "dir": "$ROOT/out", "name": "m%d.conf" % slot, "need": ["k"], "tag": "write"})
            ops.append({"op": "readFile", "o": slot + 1, "path": "$ROOT/out/m%d.conf" % slot, "delim": D if D else " ", "comment": C, "tag": "reread"})
            ops.append({"op": "exercise", "k": slot + 1, "need": ["k"], "tag": "ex"})
            ops.append({"op": "free", "k": slot + 1})
            ops.append({"op": "free", "k": slot})
            slot += 2
    for k in range(n):
        ops.append({"op": "write", "k": k, "dir": "$ROOT/out", "name": "w%d.conf" % k, "need": ["k"], "tag": "write"})
        ops.append({"op": "readFile", "o": 40 + k, "path": "$ROOT/out/w%d.conf" % k, "delim": D if D else " ", "comment": C, "tag": "reread"})
        ops.append({"op": "exercise", "k": 40 + k, "need": ["k"], "tag": "ex"})
        ops.append({"op": "free", "k": 40 + k})
        # the written file is torn by a crash and read again
        how, a, b = world["tear"]
        ops.append({"op": "env_corrupt", "path": "$ROOT/out/w%d.conf" % k, "how": how, "a": a, "b": b})
        ops.append({"op": "readFile", "o": 50 + k, "path": "$ROOT/out/w%d.conf" % k, "delim": D if D else " ", "comment": C, "tag": "torn"})
        ops.append({"op": "exercise", "k": 50 + k, "need": ["k"], "tag": "ex"})
        ops.append({"op": "free", "k": 50 + k})
    # as members of a tree, with the parsing options
    o = "PARSING_DIRS=$ROOT/d:$ROOT/e" + (";" + world["opt"] if world["opt"] else "")
    ops.append({"op": "newOpts", "o": 60, "options": o})
    ops.append({"op": "readConfig", "in": 60, "o": 60, "project": None, "usr_subdir": None, "name": "app", "suffix": "conf", "delim": D, "comment": C, "tag": "tree"})
    ops.append({"op": "exercise", "k": 60, "need": ["k"], "tag": "ex"})
    ops.append({"op": "write", "k": 60, "dir": "$ROOT/out", "name": "t.conf", "need": ["k"], "tag": "write"})
    ops.append({"op": "free", "k": 60})
    ops.append({"op": "readDirsHistory", "o": 0, "usr": "$ROOT/d", "etc": "$ROOT/e", "name": "app", "suffix": "conf", "delim": D, "comment": C, "tag": "hist"})
    # members of a history are objects like any other: merged with each other in both roles and used again afterwards
    ops.append({"op": "historyMember", "h": 0, "i": 0, "o": 70})
    ops.append({"op": "historyMember", "h": 0, "i": 1, "o": 71})
    for a, b, o_ in ((70, 71, 72), (71, 70, 73)):
        ops.append({"op": "merge", "o": o_, "usr": a, "etc": b, "need": ["usr", "etc"], "tag": "merge"})
        ops.append({"op": "exercise", "k": b, "need": ["k"], "tag": "ex"})
        ops.append({"op": "exercise", "k": a, "need": ["k"], "tag": "ex"})
        ops.append({"op": "exercise", "k": o_, "need": ["k"], "tag": "ex"})
        ops.append({"op": "free", "k": o_})
    ops.append({"op": "historyMember", "h": 0, "release": 70})
    ops.append({"op": "historyMember", "h": 0, "release": 71})
    ops.append({"op": "freeHistory", "h": 0})
    for k in range(n):
        ops.append({"op": "free", "k": k})
    total = sum(len(f["c"]) for f in files)
    cfg = dict(world["cfg"], events=False, step_budget=50000000 + 60000 * total)
    if world.get("small_stack"):
        cfg["stack_kb"] = 512
    return [{"cfg": cfg, "tree": tree, "ops": ops}]


def check(world, plans, results):
    v = Verdict()
    plan, res = plans[0], results[0]
    if crash_check(v, res, "storage-fault workload"):
        v.sig = sig_of("crash", v.classes())
        return v
    ok_reads = 0
    keys = 0
    pattern = []
    for op, r in zip(plan["ops"], res["ops"]):
        if "rc" in r and isinstance(r["rc"], int) and not rc_in_enum(r["rc"]):
            v.fail("rc-range", "op %s returned %r, outside the documented enum" % (op["op"], r["rc"]))
        if r.get("rc_out_of_enum"):
            v.fail("rc-range", "a getter returned a code outside the documented enum")
        if op.get("tag", "").startswith("read") and op["tag"] != "reread":
            pattern.append(r["rc"])
            if r["rc"] == 0:
                ok_reads += 1
        if op.get("tag") == "ex" and not r.get("skipped"):
            keys = max(keys, r.get("keys", 0))
        if op.get("tag") == "write" and not r.get("skipped") and r["rc"] != 0:
            v.obs["write_failed"] = v.obs.get("write_failed", 0) + 1
        if op.get("tag") == "reread" and r["rc"] != 0:
            v.obs["written_file_does_not_parse"] = v.obs.get("written_file_does_not_parse", 0) + 1
    leak_check(v, res, "storage-fault workload")
    v.nontrivial = ok_reads >= 1 and keys >= 2
    v.sig = sig_of(grammar.dclass(world["D"]), world["C"], world["opt"], sorted(f["kind"] for f in world["files"]),
                   sorted(set(x for f in world["files"] for x in f["faults"])), pattern)
    for f in world["files"]:
        for x in f["faults"]:
            v.probe("storage_fault_" + x)
        v.probe("base_" + f["kind"])
    if world.get("small_stack"):
        v.probe("caller_on_512KiB_stack")
    return v


def shrink_lists(world):
    return [("files",)]


def simplify(world):
    """shrink the content of each file: drop lines, then halves of the text"""
    import copy
    for k, f in enumerate(world["files"]):
        lines = f["c"].split("\n")
        if len(lines) > 1:
            for i in range(len(lines)):
                w = copy.deepcopy(world)
                w["files"][k]["c"] = "\n".join(lines[:i] + lines[i + 1:])
                yield w
        c = f["c"]
        if len(c) > 1:
            for a, b in ((0, len(c) // 2), (len(c) // 2, len(c))):
                w = copy.deepcopy(world)
                w["files"][k]["c"] = c[a:b]
                yield w
