# C06 - every file passes the caller's check before use; one rejection yields nothing.
from .. import gen
from ..core import canon, strip_volatile
from ..models import Tree, norm
from .base import Verdict, sig_of, tagged, crash_check, cb_paths

ID = "C06"
LEVEL = "fault_enumeration"
RUNS = (3200, 45000)
RULE = ("one seeded tree of C01 read through one of the four callback entry points; the veto is injected at every consulted file in "
        "turn (complete single-fault enumeration per tree) plus seeded subsets (only main, only a masked drop-in, only the last file, "
        "random subset); each execution is judged on its recorded event history; non-trivial = tree with >= 2 consulted files; "
        "distinct = distinct (entry point, #consulted, position class of the veto set, masked-file veto, main-file veto) per execution")


def gen_world(rng, i, tier):
    w = gen.gen_layered_world(rng, i, allow_refuse=False, allow_dotdot=True)
    read = w["read"]
    if rng.chance(0.08):
        # single file through econf_readFileWithCallback
        gen.single_file_world(rng, w)
    elif read["ep"] == "readDirs" and rng.chance(0.5):
        read["ep"] = "readDirsHistory"
    w["init"] = rng.pick(["null", "sentinel"])
    w["subset_seed"] = rng.getrandbits(32)
    # the callback may itself read configuration through the library (a policy file) before it answers
    w["nested"] = rng.chance(0.15)
    # a quarantining callback: it removes the file it rejects
    w["quarantine"] = rng.chance(0.2)
    return w


POLICY = {"usr": "$ROOT/policy/usr", "etc": "$ROOT/policy/etc", "name": "policy", "suffix": "conf"}
POLICY_NODES = [{"t": "f", "p": "$ROOT/policy/usr/policy.conf", "c": "policy=vendor\nallow=yes\n"},
                {"t": "f", "p": "$ROOT/policy/etc/policy.conf.d/10-site.conf", "c": "policy=site\n[rules]\nx=1\n"}]


def with_nested(world, cb):
    if cb is not None and world.get("nested"):
        cb = dict(cb, nested=POLICY)
    return cb


def consulted_of(world):
    read = world["read"]
    if read["ep"] == "readFile":
        return {"consulted": [read["path"]], "masked": [], "main": read["path"], "nofile": False}
    return gen.model_of(world)


def veto_sets(world, model):
    from ..core import Rng
    cons = model["consulted"]
    sets = [[cons[k]] for k in gen.enum_positions(len(cons), world.get("subset_seed", 1))]
    r = Rng(world.get("subset_seed", 1))
    if len(cons) >= 2:
        if model["masked"]:
            sets.append([r.pick(model["masked"])])
        sets.append(r.subset(cons, 2, len(cons)))
        sets.append([cons[-1], cons[0]])
    out = []
    for s in sets:
        if s not in out:
            out.append(s)
    return out


def one_plan(world, cb, init):
    read = world["read"]
    ops = gen.prologue_ops(read)
    ops += gen.layered_read_ops(read, cb=with_nested(world, cb), init=init)
    if cb:
        # nothing of the refused call may survive into the next one: the same read again, everything accepted
        again = gen.layered_read_ops(read, cb=with_nested(world, {}), init=init)
        for o in again:
            if "tag" in o:
                o["tag"] += "_again"
        ops += again
    return {"cfg": world["cfg"], "tree": gen.tree_plan(world["nodes"]) + (POLICY_NODES if world.get("nested") else []), "ops": ops}


def build_plans(world):
    model = consulted_of(world)
    plans = [one_plan(world, None, world["init"]), one_plan(world, {}, world["init"])]
    if model and not model["nofile"]:
        read = world["read"]
        for vs in veto_sets(world, model):
            # a caller's callback compares the path it is handed with the names it composed itself:
            # the veto is spelled the way the caller spelled its directories (relative stays relative)
            cbs = {"reject_spelled": [gen.rel(read, p) for p in vs]}
            if world.get("quarantine"):
                cbs["reject_unlink"] = True
            plans.append(one_plan(world, cbs, world["init"]))
        sp = stale_path(world, model)
        if sp:
            # one more member in a consulted drop-in directory: a stale symbolic link with the suffix.  Whether the
            # callback is asked about a path that cannot be opened is not claimed; IF it is asked and rejects, the
            # rejection counts like any other
            w2 = dict(world, nodes=world["nodes"] + [{"p": sp, "t": "l", "to": "$ROOT/nowhere/stale.conf"}])
            plans.append(one_plan(w2, {"reject_spelled": [gen.rel(read, sp)]}, world["init"]))
    return plans


def stale_path(world, model):
    from ..models import norm_suffix
    drop = [p for p in model["consulted"] if p != model.get("main")]
    if not drop or world["read"]["ep"] == "readFile":
        return None
    d = drop[-1].rsplit("/", 1)[0]
    return "%s/%s%s" % (d, ["00-stale", "zz-stale", "M-stale"][world.get("subset_seed", 0) % 3], norm_suffix(world["read"].get("suffix")))


def empty_dump(d):
    if d is None or d.get("null"):
        return True
    if d.get("nogroup", {}).get("rc") == 0 and d["nogroup"].get("keys"):
        return False
    return not any(g.get("keys") for g in d.get("groups", []))


def check(world, plans, results):
    v = Verdict()
    model = consulted_of(world)
    tree = Tree(world["nodes"])
    read = world["read"]
    for k, res in enumerate(results):
        if crash_check(v, res, "plan %d" % k):
            v.sig = sig_of("crash", v.classes())
            return v
    plain, acc = results[0], results[1]
    rp, ra = tagged(plans[0], plain, "read"), tagged(plans[1], acc, "read")
    # (v) no rejection: same result as the entry point without callback
    if rp["rc"] != ra["rc"]:
        v.fail("acceptall:rc", "accept-all callback changes the return code: %r vs %r without callback" % (ra["rc"], rp["rc"]))
    elif canon(strip_volatile(tagged(plans[0], plain, "dump"))) != canon(strip_volatile(tagged(plans[1], acc, "dump"))):
        v.fail("acceptall:content", "accept-all callback changes the result")
    cons = model["consulted"] if model and not model["nofile"] else []
    sets = veto_sets(world, model) if cons else []
    sigs = []
    for k, res in enumerate(results[1:], start=1):
        plan = plans[k]
        if k - 2 >= len(sets):
            # the stale-link plan: only the rule about rejections that happened
            read_idx = [i for i, op in enumerate(plan["ops"]) if op.get("tag") == "read"][0]
            evs = [e for e in res.get("events", []) if e[1] == read_idx]
            rd = tagged(plan, res, "read")
            if any(e[2] == "cb_reject" for e in evs):
                v.probe("rejected_path_is_a_stale_link")
                if rd["rc"] != 21:
                    v.fail("veto:happened", "the callback rejected the stale link %r but the call returned %r instead of callback-failed" % ([norm(e[3]) for e in evs if e[2] == "cb_reject"][:1], rd["rc"]))
                elif rd["out"] == "obj" and (read["ep"] == "readDirsHistory" or not empty_dump(tagged(plan, res, "dump"))):
                    v.fail("veto:happened", "the callback rejected a stale link and the call still handed a result back")
            continue
        vs = [] if k == 1 else sets[k - 2]
        rd = tagged(plan, res, "read")
        read_idx = [i for i, op in enumerate(plan["ops"]) if op.get("tag") == "read"][0]   # the vetoed read, not the one after it
        evs = [e for e in res.get("events", []) if e[1] == read_idx]
        # (i) accepted before opened
        accepted = set()
        seen_cb = set()
        for t, opi, what, path, r, e in evs:
            p = norm(path)
            if what == "cb_accept":
                accepted.add(p)
                seen_cb.add(p)
                if r != 1:
                    v.fail("cb:data", "callback data pointer did not arrive unchanged for %s" % p)
            elif what == "cb_reject":
                seen_cb.add(p)
                if r != 1:
                    v.fail("cb:data", "callback data pointer did not arrive unchanged for %s" % p)
            elif what == "fopen_r" and r == 0:
                if p not in accepted:
                    v.fail("cb:order", "plan %d: %s was opened without a preceding accepting callback (%s)" % (k, p, "rejected" if p in seen_cb else "never asked"))
        # a rejection that HAPPENED yields nothing - whatever the rejected path was
        if any(e[2] == "cb_reject" for e in evs):
            if rd["rc"] != 21:
                v.fail("veto:happened", "plan %d: the callback rejected %r but the call returned %r instead of callback-failed" % (k, [norm(e[3]) for e in evs if e[2] == "cb_reject"][:2], rd["rc"]))
            elif rd["out"] == "obj" and (read["ep"] == "readDirsHistory" or not empty_dump(tagged(plan, res, "dump"))):
                v.fail("veto:happened", "plan %d: the callback rejected a path and the call still handed a result back" % k)
        # exact path: a relative directory argument must reach the callback as a relative name
        if read.get("rel"):
            for pth, a, ok in cb_paths(res, read_idx):
                if pth.startswith("/") or pth.startswith("$ROOT"):
                    v.fail("cb:spelling", "plan %d: the caller used relative names but the callback was handed %r" % (k, pth))
                    break
        # (ii) callback sequence = consulted list cut after the first rejected file
        seq = [norm(p) for p, a, ok in cb_paths(res, read_idx) if tree.is_fileish(norm(p))]
        exp = []
        for p in cons:
            exp.append(p)
            if p in vs:
                break
        if rd["rc"] in (0, 21) and seq != exp:
            v.fail("cb:sequence", "plan %d (veto %r): callback saw %r, expected %r" % (k, vs, seq, exp))
        # state left by the refused call must not leak into the next call
        if vs and world.get("quarantine"):
            v.probe("callback_removes_the_file_it_rejects")
        if vs and not world.get("quarantine"):
            r2 = tagged(plan, res, "read_again")
            if r2 is not None:
                if r2["rc"] != ra["rc"] or canon(strip_volatile(tagged(plan, res, "dump_again"))) != canon(strip_volatile(tagged(plans[1], acc, "dump"))):
                    v.fail("veto:aftermath", "plan %d: after the refused call the same read with everything accepted returns rc=%r (expected %r) or a different configuration" % (k, r2["rc"], ra["rc"]))
        # (iv) one rejection yields nothing
        if vs:
            if rd["rc"] != 21:
                v.fail("veto:rc", "plan %d: file(s) %r rejected but the call returned %r instead of callback-failed" % (k, vs, rd["rc"]))
            if read["ep"] == "readDirsHistory":
                if rd["out"] == "obj":
                    v.fail("veto:history", "plan %d: a history was handed back although %r was rejected" % (k, vs))
            elif rd["out"] == "obj" and not empty_dump(tagged(plan, res, "dump")):
                v.fail("veto:content", "plan %d: a non-empty configuration was handed back although %r was rejected" % (k, vs))
            pos = "main" if model.get("main") in vs else ("last" if cons[-1] in vs else ("first" if cons[0] in vs else "middle"))
            sigs.append((read["ep"], min(len(cons), 6), pos, any(p in model["masked"] for p in vs), len(vs) > 1))
            if any(p in model["masked"] for p in vs):
                v.probe("reject_on_masked_dropin")
            if model.get("main") in vs:
                v.probe("reject_main_file")
            if cons[-1] in vs and len(vs) == 1:
                v.probe("reject_last_file")
    v.nontrivial = len(cons) >= 2
    from . import c01 as _c01
    tsig = _c01.layered_signature(world, model) if read["ep"] != "readFile" and model else "single"
    v.sig = sig_of(read["ep"], len(cons), sorted(set(sigs)), tsig)
    v.probe("executions", len(results))
    if world.get("nested"):
        v.probe("callback_uses_the_library_itself")
    return v


def shrink_lists(world):
    out = [("nodes",)]
    for i, n in enumerate(world["nodes"]):
        if n.get("entries"):
            out.append(("nodes", i, "entries"))
    return out
