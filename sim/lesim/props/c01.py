# C01 - layered lookup yields the vendor < /run < /etc precedence for every tree.
from .. import gen
from ..models import Tree, dump_to_conf, conf_diff, norm, basename
from .base import Verdict, sig_of, tagged, crash_check, cb_paths

ID = "C01"
LEVEL = "exploration"
RUNS = (32000, 600000)
RULE = ("one seeded tree of DESIGN.md 5.3 (1-4 layers x main-file state per layer x drop-in name sets x suffix spelling x "
        "parameter shape) read once under seeded enumeration order / d_type / short reads / heap fill; non-trivial = at least "
        "two consulted files in at least two layers; distinct = distinct (main-state pattern, per-layer drop-in counts, masked "
        "count, entry point, suffix class, postfix source, no-file/refusal) signatures")


def gen_world(rng, i, tier):
    w = gen.gen_layered_world(rng, i, allow_repeat=True, allow_dotdot=True, allow_join=True)
    if gen.name_of(w["read"]) and w["nodes"] and rng.chance(0.2):
        # the tree changes between two reads of the same process: the second read must see the tree as it is then
        files = [k for k, n in enumerate(w["nodes"]) if n["t"] == "f"]
        kind = rng.pick(["rewrite", "delete", "add"]) if files else "add"
        m = {"kind": kind}
        if kind in ("rewrite", "delete"):
            m["index"] = rng.pick(files)
            m["entries"] = gen.file_entries(rng, 900 + i % 50, maxkeys=4)
        else:
            model = gen.model_of(w)
            dirs = sorted(set(p.rsplit("/", 1)[0] for p in (model["consulted"] if model else []) if p != (model or {}).get("main")))
            if dirs:
                from ..models import norm_suffix
                m["path"] = "%s/zz-new%s" % (rng.pick(dirs), norm_suffix(w["read"].get("suffix")))
                m["entries"] = gen.file_entries(rng, 950 + i % 40, maxkeys=4)
            else:
                m = None
        if m:
            w["mutation"] = m
    if gen.name_of(w["read"]) and w["nodes"] and w["read"].get("rel") and not w["read"].get("dotdot") and rng.chance(0.5):
        # relative names: the application changes its working directory between the two reads; the same names
        # then lead to another tree
        w["mutation"] = {"kind": "chdir", "drop": rng.pick([None, rng.randrange(100)])}
    return w


def mutated_nodes(world):
    import copy
    nodes = copy.deepcopy(world["nodes"])
    m = world["mutation"]
    if m["kind"] == "chdir":
        # the tree the relative names lead to after the change of directory: same shape, other values, one node less
        for n in nodes:
            for e in n.get("entries", []):
                if e[2] is not None:
                    e[2] = "alt-" + e[2]
            if n.get("split"):
                n["split"][2] = "alt-" + n["split"][2]      # the first of the two lines that give the key
        if m.get("drop") is not None and len(nodes) > 1:
            del nodes[m["drop"] % len(nodes)]
        return nodes
    if m["kind"] == "rewrite":
        nodes[m["index"] % len(nodes)]["entries"] = m["entries"]
        nodes[m["index"] % len(nodes)].pop("c", None)
    elif m["kind"] == "delete":
        del nodes[m["index"] % len(nodes)]
    else:
        nodes.append({"p": m["path"], "t": "f", "entries": m["entries"], "delim": world["read"]["delim"][0]})
    return nodes


def same_sequence(read, seen, consulted):
    """the processing order.  A directory that is listed twice may be scanned twice, or once at the position
    that counts (its last): the statement fixes the result, not the number of scans."""
    if seen == consulted:
        return True
    if read.get("repeated_layer"):
        last = [p for i, p in enumerate(consulted) if p not in consulted[i + 1:]]
        return seen == last
    return False


def build_plans(world):
    read = world["read"]
    ops = gen.prologue_ops(read)
    cb = {} if read.get("cb") else None
    if read["ep"] == "readConfig":
        ops.append({"op": "newOpts", "o": 0, "options": gen.option_string(read), "tag": "new"})
        ops += gen.late_global_ops(read)
        ops.append(dict(gen.read_op(read, o=0, cb=cb, in_slot=0), tag="read"))
    else:
        ops += gen.late_global_ops(read)
        ops.append(dict(gen.read_op(read, o=0, cb=cb), tag="read"))
    ops.append({"op": "dump", "k": 0, "ext": False, "tag": "dump"})
    ops.append({"op": "free", "k": 0})
    if world.get("mutation"):
        m = world["mutation"]
        n2 = mutated_nodes(world)
        if m["kind"] == "chdir":
            ops.append({"op": "chdir", "path": "$ROOT/alt"})
        elif m["kind"] == "delete":
            ops.append({"op": "env_unlink", "path": world["nodes"][m["index"] % len(world["nodes"])]["p"]})
        else:
            target = n2[m["index"] % len(n2)] if m["kind"] == "rewrite" else n2[-1]
            ops.append({"op": "env_entry", "e": gen.tree_plan([target])[0]})
        if read["ep"] == "readConfig":
            ops.append({"op": "newOpts", "o": 1, "options": gen.option_string(read)})
            ops.append(dict(gen.read_op(read, o=1, cb=cb, in_slot=1), tag="read2"))
        else:
            ops.append(dict(gen.read_op(read, o=1, cb=cb), tag="read2"))
        ops.append({"op": "dump", "k": 1, "ext": False, "tag": "dump2"})
        ops.append({"op": "free", "k": 1})
    tree = gen.tree_plan(world["nodes"])
    if world.get("mutation", {}).get("kind") == "chdir":
        import json
        tree += json.loads(json.dumps(gen.tree_plan(mutated_nodes(world))).replace("$ROOT", "$ROOT/alt"))
    return [{"cfg": world["cfg"], "tree": tree, "ops": ops}]


def layered_signature(world, model):
    read = world["read"]
    tree = Tree(world["nodes"])
    layers = gen.layers_of(read)
    per_layer = []
    for l in layers:
        per_layer.append(sum(1 for p in model["consulted"] if p != model["main"] and p.startswith(norm(l) + "/")))
    mains = []
    name = gen.name_of(read)
    from ..models import norm_suffix
    for l in layers:
        n = tree.node("%s/%s%s" % (l, name, norm_suffix(read.get("suffix"))))
        mains.append("-" if n is None else ("L" if n["t"] == "l" else ("E" if not n.get("entries") else "R")))
    pf = "dropin-only" if not read.get("name") else ("object" if read["opts"].get("config_dirs") else ("global" if read.get("global_dirs") else "default"))
    return ("".join(mains), tuple(min(x, 3) for x in per_layer), min(len(model["masked"]), 3), read["ep"], bool(read.get("cb")),
            "none" if not read.get("suffix") else ("dot" if read["suffix"].startswith(".") else "bare"), pf)


def compare_with_model(v, world, rc, dump, res, read_index, oracle_prefix="m5"):
    """shared with C12: compares one successful/failed layered read with M5, recognising D7."""
    model = gen.model_of(world)
    if model["nofile"] and model.get("seen"):
        # nothing but sub-directories that carry the suffix: whether that counts as "no file at all" (file-not-found)
        # or as entries that contribute nothing (success, empty configuration) is not fixed by the statement
        if rc == 3 or (rc == 0 and not dump_to_conf(dump)[0].entries):
            return model
        v.fail(oracle_prefix + ":nofile", "only sub-directories carry the suffix, but the read returned %r with content" % rc)
        return model
    if model["nofile"]:
        if rc != 3:
            v.fail(oracle_prefix + ":nofile", "no file exists in any layer but the read returned %r instead of file-not-found" % rc)
        return model
    if rc != 0:
        v.fail(oracle_prefix + ":rc", "read failed with %r although %d file(s) exist: %s" % (rc, len(model["consulted"]), model["consulted"][:4]))
        return model
    got, secs = dump_to_conf(dump)
    secs = [s for s in secs if got.keys(s)]
    diffs = conf_diff(model["merged"], got, secs)
    if diffs:
        # known finding D7: with no main file the first consulted drop-in is never masked
        alt = gen.model_of(world, mask_first=False)
        first = model["consulted"][0]
        if model["main"] is None and first in model["masked"] and not conf_diff(alt["merged"], got, secs):
            v.known_finding("D7", "no main file and first consulted drop-in %s is masked by a same-name drop-in of a higher layer, but its content stays visible" % first)
            v.probe("masked_first_dropin")
        else:
            v.fail(oracle_prefix + ":content", "merged configuration differs from the layered-lookup model: " + "; ".join(diffs[:5]))
    return model


def check(world, plans, results):
    v = Verdict()
    plan, res = plans[0], results[0]
    read = world["read"]
    if crash_check(v, res, "layered read"):
        v.sig = sig_of("crash", v.classes())
        return v
    r = tagged(plan, res, "read")
    if not gen.name_of(read):
        # project and name both absent: must be refused with an error code, not crash
        v.probe("refusal_shape")
        if r["rc"] == 0:
            v.fail("refuse", "read without project and without name returned success")
        v.sig = sig_of("refuse", read["ep"])
        return v
    model = compare_with_model(v, world, r["rc"], tagged(plan, res, "dump"), res, None)
    # consulted files, as seen by an always-accepting callback
    tree = Tree(world["nodes"])
    read_idx = [k for k, op in enumerate(plan["ops"]) if op.get("tag") == "read"][0]
    if read.get("cb") and not model["nofile"] and r["rc"] == 0:
        seen = [norm(p) for p, acc, ok in cb_paths(res, read_idx) if tree.is_fileish(norm(p))]
        if not same_sequence(read, seen, model["consulted"]):
            v.fail("m5:consulted", "files handed to the callback %r differ from the model's consulted list %r" % (seen, model["consulted"]))
    # processing order without callback: the order in which the files were opened
    if not read.get("cb") and not model["nofile"] and r["rc"] == 0:
        opened = [norm(e[3]) for e in res.get("events", []) if e[1] == read_idx and e[2] == "fopen_r" and e[4] == 0 and tree.is_fileish(norm(e[3]))]
        if opened and not same_sequence(read, opened, model["consulted"]):
            v.fail("m5:consulted", "files were opened in the order %r, the model's consulted list is %r" % (opened, model["consulted"]))
    if world.get("mutation") and tagged(plan, res, "read2") is not None:
        w2 = dict(world, nodes=mutated_nodes(world))
        r2 = tagged(plan, res, "read2")
        compare_with_model(v, w2, r2["rc"], tagged(plan, res, "dump2"), res, None, oracle_prefix="m5-after-change")
        v.probe("tree_changed_between_two_reads_" + world["mutation"]["kind"])
    layers = set()
    for p in model["consulted"]:
        for l in gen.layers_of(read):
            if p.startswith(norm(l) + "/"):
                layers.add(l)
                break
    v.nontrivial = len(model["consulted"]) >= 2 and len(layers) >= 2
    v.sig = sig_of(layered_signature(world, model), model["nofile"])
    if model["main"] and any(n["t"] == "l" for n in world["nodes"] if norm(n["p"]) == model["main"]):
        v.probe("devnull_main")
    if model["main"] and not Tree(world["nodes"]).conf_of(model["main"]).entries and any(tree.conf_of(p).sections() for p in model["consulted"][1:2]):
        v.probe("empty_main_plus_sectioned_dropin")
    if model["masked"]:
        v.probe("masked_dropin")
    if not read.get("name"):
        v.probe("dropin_only_mode")
    if read.get("global_dirs") and read["opts"].get("config_dirs"):
        v.probe("object_list_over_global_list")
    if model["nofile"]:
        v.probe("nofile")
    if not read.get("suffix"):
        v.probe("no_suffix")
    if read["ep"] == "readConfig" and not read["opts"].get("root_prefix") and not read["opts"].get("parsing_dirs"):
        v.probe("default_layers_without_root_prefix")
    lay = gen.layers_of(read)
    if model["main"] and len(lay) >= 3 and model["main"].startswith(norm(lay[1]) + "/"):
        v.probe("main_in_middle_layer")
    return v


def shrink_lists(world):
    """paths of lists inside the world whose elements may be dropped while shrinking"""
    out = [("nodes",)]
    for i, n in enumerate(world["nodes"]):
        if n.get("entries"):
            out.append(("nodes", i, "entries"))
    return out
