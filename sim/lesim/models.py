# Reference models (DESIGN.md section 4).  Deliberately trivial inside and written
# against the statements of the properties, not against the code.
import re


def norm(p):
    """normalised path in model space: relative names are relative to $ROOT (the working directory of a
    run that uses relative names), repeated slashes and '.' segments are dropped"""
    if p and not p.startswith("/") and not p.startswith("$ROOT"):
        p = "$ROOT/" + p
    if p and "/cur/.." in p:
        # generator convention (gen.apply_dotdot): $ROOT/cur is a symbolic link to $ROOT/rel/v2, so "cur/.." is $ROOT/rel
        p = p.replace("/cur/../", "/rel/")
        if p.endswith("/cur/.."):
            p = p[:-len("/cur/..")] + "/rel"
    lead = "/" if p.startswith("/") else ""
    segs = [x for x in p.split("/") if x not in ("", ".")]
    return lead + "/".join(segs) if segs else (lead or "")


def basename(p):
    return p.rsplit("/", 1)[-1]


def dirname(p):
    return p.rsplit("/", 1)[0] if "/" in p else ""


# ---------------------------------------------------------------------------
# M1/M2: configuration value, rendered files
# ---------------------------------------------------------------------------
class Conf:
    """entries: list of (section|None, key, text|None) in order."""

    def __init__(self, entries=()):
        self.entries = [tuple(e) for e in entries]

    def map(self):
        m = {}
        for s, k, v in self.entries:
            m.setdefault((s, k), v)
        return m

    def sections(self):
        out = []
        for s, _, _ in self.entries:
            if s is not None and s not in out:
                out.append(s)
        return out

    def keys(self, section):
        return [k for s, k, _ in self.entries if s == section]


def render_plain(entries, delim="=", pad=""):
    """Plain profile of DESIGN.md 5.1: blank/header/entry lines only.  entries must have
    the group-less ones first and every section contiguous."""
    out = []
    cur = None
    for s, k, v in entries:
        if s != cur:
            if out:
                out.append("")
            out.append("[%s]" % s)
            cur = s
        out.append("%s%s%s%s%s" % (k, pad, delim, pad, v))
    return "\n".join(out) + ("\n" if out else "")


def merge(base, over):
    """M4: override wins per (section,key); base order kept; override-only keys follow
    the base keys of their section; override-only sections last; group-less first."""
    om = over.map()
    res = []
    secs = [None] + base.sections()
    seen = set()
    for sec in secs:
        for s, k, v in base.entries:
            if s != sec or (s, k) in seen:
                continue
            seen.add((s, k))
            res.append((s, k, om[(s, k)] if (s, k) in om else v))
        for s, k, v in over.entries:
            if s != sec or (s, k) in seen:
                continue
            seen.add((s, k))
            res.append((s, k, om[(s, k)]))
    for sec in over.sections():
        if sec in secs:
            continue
        for s, k, v in over.entries:
            if s != sec or (s, k) in seen:
                continue
            seen.add((s, k))
            res.append((s, k, om[(s, k)]))
    return Conf(res)


# ---------------------------------------------------------------------------
# M5: layered lookup
# ---------------------------------------------------------------------------
class Tree:
    """nodes: list of dicts {p, t in 'f'|'l'|'d', entries|c, to, uid, gid}; paths start with $ROOT."""

    def __init__(self, nodes):
        self.nodes = nodes
        self.byp = {}
        self.children = {}
        for n in nodes:
            p = norm(n["p"])
            self.byp[p] = n
            # implied directories
            q = p
            while "/" in q and q != "$ROOT":
                d = dirname(q)
                self.children.setdefault(d, set()).add(basename(q))
                if d not in self.byp:
                    self.byp[d] = {"p": d, "t": "d"}
                q = d

    def exists(self, p):
        return norm(p) in self.byp

    def node(self, p):
        return self.byp.get(norm(p))

    def is_dir(self, p):
        n = self.node(p)
        return n is not None and n["t"] == "d"

    def is_fileish(self, p):
        """regular file, or symbolic link that leads to something that can be opened"""
        n = self.node(p)
        if n is None:
            return False
        if n["t"] == "l":
            return n["to"] == "/dev/null" or (norm(n["to"]) != norm(p) and self.is_fileish(n["to"]))
        return n["t"] == "f"

    def listdir(self, d):
        d = norm(d)
        if not self.is_dir(d):
            return None
        return sorted(self.children.get(d, set()), key=lambda s: s.encode("latin-1"))

    def conf_of(self, p):
        n = self.node(p)
        if n is None or n["t"] == "d":
            return Conf()
        if n["t"] == "l":
            if n["to"] == "/dev/null":
                return Conf()
            return self.conf_of(n["to"])
        return Conf(n.get("entries", []))


def norm_suffix(suffix):
    if suffix is None or suffix == "":
        return ""
    return suffix if suffix.startswith(".") else "." + suffix


def m5(tree, layers, name, suffix, postfixes, mask_first=True):
    """Returns dict(consulted=[paths], masked=[paths], merged=Conf, nofile=bool, main=path|None).
    consulted holds only regular files and symlinks ('.', '..' and sub-directories that an
    empty suffix lets through are environment artefacts, not files).
    mask_first=False gives the variant M5' used only to recognise known finding D7."""
    suf = norm_suffix(suffix)
    consulted = []
    seen = []          # consulted files plus sub-directories that carry the suffix (looked at, checked, but no files)
    main = None
    for layer in reversed(layers):
        p = norm("%s/%s%s" % (layer, name, suf))
        if tree.is_fileish(p):
            main = p
            break
    if main:
        consulted.append(main)
        seen.append(main)
    if postfixes is None:
        postfixes = [suf + ".d"]
    for layer in layers:
        for pf in postfixes:
            d = norm("%s/%s%s" % (layer, name, pf))
            names = tree.listdir(d)
            if names is None:
                continue
            for nm in names:
                if len(nm) > len(suf) and nm.endswith(suf) and tree.is_fileish(d + "/" + nm):
                    consulted.append(d + "/" + nm)
                    seen.append(d + "/" + nm)
                elif suf and len(nm) > len(suf) and nm.endswith(suf) and tree.is_dir(d + "/" + nm):
                    seen.append(d + "/" + nm)
    # masking works on positions: a directory may be listed twice (A:B:A), then its files are consulted twice
    # and the copy at the later position is the one that counts
    masked_idx = set()
    for i, p in enumerate(consulted):
        if p == main and i == 0:
            continue
        if i == 0 and not mask_first:
            continue
        if any(basename(q) == basename(p) for q in consulted[i + 1:]):
            masked_idx.add(i)
    merged = None
    for i, p in enumerate(consulted):
        if i in masked_idx:
            continue
        c = tree.conf_of(p)
        merged = c if merged is None else merge(merged, c)
    live = set(p for i, p in enumerate(consulted) if i not in masked_idx)
    masked = []
    for i, p in enumerate(consulted):
        if i in masked_idx and p not in live and p not in masked:
            masked.append(p)
    return {"consulted": consulted, "seen": seen, "masked": masked, "merged": merged if merged is not None else Conf(),
            "nofile": len(consulted) == 0, "main": main}


# ---------------------------------------------------------------------------
# reading a dump produced by the executor
# ---------------------------------------------------------------------------
def dump_to_conf(d):
    """executor 'dump' result -> (Conf, sections list); value None and '' are one class."""
    ents = []
    ng = d.get("nogroup", {})
    if ng.get("rc") == 0:
        for k in ng["keys"]:
            ents.append((None, k["k"], k.get("v")))
    secs = []
    for g in d.get("groups", []):
        secs.append(g["g"])
        if g.get("rc") == 0:
            for k in g["keys"]:
                ents.append((g["g"], k["k"], k.get("v")))
    return Conf(ents), secs


def nz(v):
    return "" if v is None else v


def conf_diff(expected, got_conf, got_secs, order=False):
    """Compare as maps (section,key)->text plus section set (of key-bearing sections)."""
    em = {k: nz(v) for k, v in expected.map().items()}
    gm = {k: nz(v) for k, v in got_conf.map().items()}
    diffs = []
    for k in sorted(set(em) | set(gm), key=lambda x: (x[0] or "", x[1])):
        if em.get(k, "<absent>") != gm.get(k, "<absent>"):
            diffs.append("%s/%s: expected %r got %r" % (k[0], k[1], em.get(k, "<absent>"), gm.get(k, "<absent>")))
    es = set(expected.sections())
    gs = set(s for s in got_secs)
    if es != gs:
        diffs.append("sections: expected %r got %r" % (sorted(es), sorted(gs)))
    if order and not diffs:
        for sec in [None] + expected.sections():
            if expected.keys(sec) != got_conf.keys(sec):
                diffs.append("key order in %r: expected %r got %r" % (sec, expected.keys(sec), got_conf.keys(sec)))
    return diffs


# ---------------------------------------------------------------------------
# M3: ordered map
# ---------------------------------------------------------------------------
def strip_brackets(g):
    if g is not None and len(g) >= 2 and g[0] == "[" and g[-1] == "]":
        # the library copies up to the first ']'
        inner = g[1:]
        return inner[:inner.index("]")]
    return g


class OrderedMap:
    def __init__(self, entries=()):
        self.entries = [list(e[:3]) for e in entries]       # [section|None, key, text]
        self.secs = []
        for s, _, _ in self.entries:
            if s is not None and s not in self.secs:
                self.secs.append(s)

    @staticmethod
    def sec(g):
        g = strip_brackets(g)
        return None if g is None or g == "" else g

    def find(self, g, k):
        s = self.sec(g)
        for e in self.entries:
            if e[0] == s and e[1] == k:
                return e
        return None

    def set(self, g, k, text):
        e = self.find(g, k)
        if e is not None:
            e[2] = text
            return
        s = self.sec(g)
        if s is not None and s not in self.secs:
            self.secs.append(s)
        self.entries.append([s, k, text])

    def keys(self, g):
        # the listing takes the section name literally (no bracket stripping promised)
        s = None if g is None or g == "" else g
        return [e[1] for e in self.entries if e[0] == s]
