# lesim core: seeds, executor processes, result hashing.
#
# One integer decides everything: run i of a batch for property P uses
#   seed_i = mix(VERIF_SEED, P, i)
# and every choice of the run (swarm configuration, tree, operations, faults,
# I/O chunking, heap fill byte, scheduler decisions) is derived from seed_i.
# Nothing here reads a clock or the pid for anything that enters a result.
import hashlib
import json
import os
import random
import subprocess
import sys

MASK = (1 << 64) - 1


def splitmix(x):
    x = (x + 0x9E3779B97F4A7C15) & MASK
    z = x
    z = ((z ^ (z >> 30)) * 0xBF58476D1CE4E5B9) & MASK
    z = ((z ^ (z >> 27)) * 0x94D049BB133111EB) & MASK
    return z ^ (z >> 31)


def mix(base, prop, i):
    h = int.from_bytes(hashlib.sha256(("%d/%s/%d" % (base, prop, i)).encode()).digest()[:8], "big")
    return splitmix(h)


class Rng(random.Random):
    """random.Random with a few helpers; seeded from one integer.  Only methods whose
    output is stable across CPython versions (random(), randrange via getrandbits,
    choice, shuffle, sample on lists) are used."""

    def chance(self, p):
        return self.random() < p

    def pick(self, seq):
        return seq[self.randrange(len(seq))]

    def subset(self, seq, lo=0, hi=None):
        hi = len(seq) if hi is None else min(hi, len(seq))
        n = self.randint(lo, hi) if hi >= lo else hi
        idx = sorted(self.sample(range(len(seq)), n))
        return [seq[i] for i in idx]


def canon(obj):
    return json.dumps(obj, sort_keys=True, separators=(",", ":"), ensure_ascii=True)


def strip_volatile(res):
    """Remove the parts of an executor result that are allowed to differ between two
    executions of the same plan (return addresses of allocation sites, step counts
    which depend on the exact instrumentation of the build)."""
    if isinstance(res, dict):
        return {k: strip_volatile(v) for k, v in res.items() if k not in ("ra", "steps", "stderr", "tsan_reports")}
    if isinstance(res, list):
        return [strip_volatile(v) for v in res]
    return res


def result_hash(results):
    return hashlib.sha256(canon(strip_volatile(results)).encode()).hexdigest()[:16]


class ExecutorDied(Exception):
    pass


class Executor:
    """One lesim executor process (a world).  Plans go in as JSON lines, results come
    back as JSON lines.  When the process dies (sanitizer report, step budget, signal)
    the plan in flight is identified by the 'begin' line it announced."""

    def __init__(self, binary, root, env=None, extra_args=()):
        self.binary = binary
        self.root = root
        self.env = dict(os.environ)
        self.env.pop("ASAN_OPTIONS", None)
        self.env.pop("LD_PRELOAD", None)
        if env:
            self.env.update(env)
        self.extra_args = list(extra_args)
        self.p = None
        self.stderr_path = root + ".stderr"
        self.restarts = 0

    def start(self):
        self.errf = open(self.stderr_path, "wb")
        self._err_off = 0
        self.p = subprocess.Popen([self.binary, "--root", self.root] + self.extra_args, stdin=subprocess.PIPE,
                                  stdout=subprocess.PIPE, stderr=self.errf, env=self.env, bufsize=0)
        self._buf = b""

    # A plan takes milliseconds to a few seconds and the step budget ends every loop in instrumented code.  What is
    # left are hangs OUTSIDE it (a sanitizer runtime that dead-locks while reporting, a libc call that never returns):
    # after this many wall-clock seconds without a line the executor is killed and the plan counts as crashed.  The
    # limit is two orders of magnitude above anything a healthy plan needs, so it does not decide ordinary runs.
    WATCHDOG_S = float(os.environ.get("LESIM_WATCHDOG", "240"))

    def _readline(self):
        import select
        fd = self.p.stdout.fileno()
        while b"\n" not in self._buf:
            ready, _, _ = select.select([fd], [], [], self.WATCHDOG_S)
            if not ready:
                self.hung = True
                try:
                    self.p.kill()
                except Exception:
                    pass
                return b""
            chunk = os.read(fd, 1 << 16)
            if not chunk:
                line, self._buf = self._buf, b""       # end of file: whatever is left (normally nothing)
                return line
            self._buf += chunk
        line, _, self._buf = self._buf.partition(b"\n")
        return line + b"\n"

    def run(self, plan):
        """Execute one plan; returns the result dict.  A crash is returned as
        {'fatal': 'crash', 'exit': code, 'stderr': text}; the executor is restarted."""
        if self.p is None or self.p.poll() is not None:
            self.start()
        data = (json.dumps(plan, separators=(",", ":"), ensure_ascii=True) + "\n").encode()
        try:
            self.p.stdin.write(data)
            self.p.stdin.flush()
        except BrokenPipeError:
            pass
        res = None
        fatal = None
        while True:
            line = self._readline()
            if not line:
                break
            line = line.strip()
            if not line:
                continue
            try:
                j = json.loads(line)
            except ValueError:
                continue
            if "begin" in j:
                continue
            if "fatal" in j and j.get("fatal") == "step_budget":
                fatal = j
                continue
            res = j
            break
        if res is not None:
            if res.pop("recycle", False):
                # the executor keeps what a run leaked alive (it never frees behind the library's back); past a cap it
                # retires after delivering its result and the next plan gets a new process
                try:
                    self.p.stdin.close()
                    self.p.wait(timeout=20)
                except Exception:
                    self.p.kill()
                self.errf.close()
                self.p = None
            return res
        # the executor died
        code = self.p.wait()
        self.errf.close()
        try:
            with open(self.stderr_path, "rb") as f:
                err = f.read().decode("latin-1")
        except OSError:
            err = ""
        self.p = None
        self.restarts += 1
        out = {"id": plan.get("id"), "fatal": "crash", "exit": code, "stderr": err[-12000:]}
        if getattr(self, "hung", False):
            out["exit"] = "watchdog"
            self.hung = False
        if fatal:
            out["fatal"] = "step_budget"
            out["steps"] = fatal.get("steps")
            out["op"] = fatal.get("op")
        return out

    def command(self, cmd):
        if self.p is None or self.p.poll() is not None:
            self.start()
        self.p.stdin.write((json.dumps(cmd) + "\n").encode())
        self.p.stdin.flush()
        line = self._readline()
        return json.loads(line) if line else None

    def read_stderr(self):
        try:
            self.errf.flush()
            with open(self.stderr_path, "rb") as f:
                return f.read().decode("latin-1")
        except (OSError, ValueError):
            return ""

    def close(self):
        if self.p is not None and self.p.poll() is None:
            try:
                self.p.stdin.write(b'{"cmd":"quit"}\n')
                self.p.stdin.flush()
                self.p.stdin.close()
                self.p.wait(timeout=10)
            except Exception:
                self.p.kill()
        self.p = None
        try:
            self.errf.close()
        except Exception:
            pass
        try:
            os.unlink(self.stderr_path)
        except OSError:
            pass


def classify_crash(res):
    """Turn a sanitizer report into a short, stable class: kind + first library frame."""
    if res.get("fatal") == "step_budget":
        return "hang:step_budget"
    err = res.get("stderr", "")
    kind = "exit%s" % res.get("exit")
    if res.get("exit") == "watchdog":
        kind = "hang:watchdog"
    import re
    m = re.search(r"ERROR: AddressSanitizer: ([a-zA-Z0-9_-]+)", err)
    if m:
        kind = "asan:" + m.group(1)
    else:
        m = re.search(r"runtime error: ([^\n]{0,60})", err)
        if m:
            kind = "ubsan:" + re.sub(r"0x[0-9a-f]+|\d+", "N", m.group(1)).strip()
        elif "LeakSanitizer" in err:
            kind = "lsan:leak"
    frame = ""
    for m in re.finditer(r"#\d+ 0x[0-9a-f]+ in (\S+) (\S+)", err):
        fn, loc = m.group(1), m.group(2)
        if "/lib/" in loc and ("/sim/" not in loc) and not fn.startswith("__"):
            if any(x in loc for x in ("libeconf", "getfilecontents", "mergefiles", "helpers", "keyfile", "readconfig", "econf_error", "get_value_def")):
                frame = fn
                break
    return kind + (":" + frame if frame else "")


def take_stderr(ex):
    """new stderr output of an executor since the last call"""
    try:
        ex.errf.flush()
    except Exception:
        pass
    off = getattr(ex, "_err_off", 0)
    try:
        with open(ex.stderr_path, "rb") as f:
            f.seek(off)
            data = f.read()
    except OSError:
        return ""
    ex._err_off = off + len(data)
    return data.decode("latin-1")
