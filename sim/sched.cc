// lesim scheduler + coverage unit.
//
// Compiled WITHOUT -fsanitize=thread / -fsanitize-coverage / -fsanitize=address:
//  * the baton hand-off (raw futex + __atomic) is invisible to ThreadSanitizer,
//    so TSan sees no happens-before edge between simulated tasks although the
//    execution is fully serialised (DESIGN.md 3.4);
//  * the trace-pc-guard callbacks that clang inserts on every basic-block edge
//    of the library objects land here: step budget, edge coverage, preemption.
//
// Exactly one task thread runs at any time.  All scheduler state is touched
// only by the baton holder (or by main before/after the tasks run).
#include "sched.h"
#include <linux/futex.h>
#include <sys/syscall.h>
#include <unistd.h>
#include <stdlib.h>
#include <string.h>
#include <errno.h>

extern "C" {

volatile uint64_t sim_steps = 0;
uint64_t sim_step_budget = ~0ull;
uint32_t sim_nguards = 0;
unsigned char *sim_cov = 0;
const uintptr_t *sim_pcs_beg = 0, *sim_pcs_end = 0;
int sched_active = 0;

#define MAXT 64
struct task { int fut; int state; /* 0 new, 1 runnable, 2 done */ int prio; };
static struct task T[MAXT];
static int NT = 0;
static int main_fut = 0;
static __thread int t_task = -1;
static struct sched_cfg C;
static struct sched_stats ST;
static uint64_t rs;               // splitmix64 state
static size_t sw_idx = 0;
#define MAXTR (1u << 18)
static uint64_t tr_y[MAXTR]; static int tr_t[MAXTR]; static size_t ntr = 0; static int tr_overflow = 0;
static uint64_t pct_cp[16]; static int pct_ncp = 0; static int pct_low = 0;
static uint64_t burst_left = 0;

static inline uint64_t rnd(void) {
  uint64_t z = (rs += 0x9e3779b97f4a7c15ull);
  z = (z ^ (z >> 30)) * 0xbf58476d1ce4e5b9ull;
  z = (z ^ (z >> 27)) * 0x94d049bb133111ebull;
  return z ^ (z >> 31);
}
static void fwait(int *f) {
  while (__atomic_load_n(f, __ATOMIC_ACQUIRE) == 0)
    syscall(SYS_futex, f, FUTEX_WAIT_PRIVATE, 0, 0, 0, 0);
  __atomic_store_n(f, 0, __ATOMIC_RELAXED);
}
static void fwake(int *f) {
  __atomic_store_n(f, 1, __ATOMIC_RELEASE);
  syscall(SYS_futex, f, FUTEX_WAKE_PRIVATE, 1, 0, 0, 0);
}
static void record(uint64_t y, int t) {
  // static storage: this unit must not call the (wrapped) allocator from inside library context
  if (ntr >= MAXTR) { tr_overflow = 1; return; }
  tr_y[ntr] = y; tr_t[ntr] = t; ntr++;
}
static int nrunnable(int except) {
  int n = 0;
  for (int i = 0; i < NT; i++) if (i != except && T[i].state != 2) n++;
  return n;
}
static int kth_runnable(int k, int except) {
  for (int i = 0; i < NT; i++) if (i != except && T[i].state != 2) { if (k-- == 0) return i; }
  return -1;
}
static int best_prio(int except) {
  int b = -1;
  for (int i = 0; i < NT; i++) if (i != except && T[i].state != 2 && (b < 0 || T[i].prio > T[b].prio)) b = i;
  return b;
}
// choose a task to receive the baton when the current one cannot continue
// (start of the run, end of a task)
static int pick_forced(int except) {
  int n = nrunnable(except);
  if (n == 0) return -1;
  if (C.mode == SCHED_REPLAY) {
    if (sw_idx < C.nsw) {
      int t = C.sw_t[sw_idx++];
      if (t >= 0 && t < NT && t != except && T[t].state != 2) return t;
    }
    return kth_runnable(0, except);
  }
  if (C.mode == SCHED_PCT) return best_prio(except);
  return kth_runnable((int)(rnd() % (uint64_t)n), except);
}

void sched_begin(int ntasks, const struct sched_cfg *cfg) {
  NT = ntasks > MAXT ? MAXT : ntasks;
  C = *cfg; memset(&ST, 0, sizeof ST); ST.sig = 1469598103934665603ull;
  rs = cfg->seed; sw_idx = 0; ntr = 0; tr_overflow = 0; main_fut = 0; burst_left = 0;
  for (int i = 0; i < NT; i++) { T[i].fut = 0; T[i].state = 0; T[i].prio = 0; }
  if (C.mode == SCHED_PCT) {
    // distinct random priorities d..d+n-1, change points lower the running task to d-1, d-2, ...
    int d = C.pct_d < 1 ? 1 : (C.pct_d > 15 ? 15 : C.pct_d);
    for (int i = 0; i < NT; i++) T[i].prio = d + i;
    for (int i = NT - 1; i > 0; i--) { int j = (int)(rnd() % (uint64_t)(i + 1)); int p = T[i].prio; T[i].prio = T[j].prio; T[j].prio = p; }
    pct_ncp = d - 1; pct_low = d - 1;
    for (int i = 0; i < pct_ncp; i++) pct_cp[i] = rnd() % (C.pct_len ? C.pct_len : 1);
  }
  sched_active = 1;
}
void sched_task_enter(int task) {
  t_task = task;
  fwait(&T[task].fut);
  T[task].state = 1;
}
void sched_task_exit(int task) {
  T[task].state = 2;
  int n = pick_forced(task);
  record(ST.yields, n);
  t_task = -1;
  if (n < 0) fwake(&main_fut); else fwake(&T[n].fut);
}
void sched_run(void) {
  int n = pick_forced(-1);
  record(0, n);
  if (n >= 0) { fwake(&T[n].fut); fwait(&main_fut); }
}
void sched_end(struct sched_stats *st, uint64_t **y, int **t, size_t *n) {
  sched_active = 0;
  *st = ST; *y = tr_y; *t = tr_t; *n = ntr;
}
int sched_current(void) { return t_task; }

static void sched_point(int kind, uint32_t edge) {
  int cur = t_task;
  if (cur < 0) return;
  uint64_t y = ++ST.yields;
  int next = -1;
  switch (C.mode) {
  case SCHED_REPLAY:
    if (sw_idx < C.nsw && C.sw_y[sw_idx] == y) {
      int t = C.sw_t[sw_idx++];
      if (t >= 0 && t < NT && t != cur && T[t].state != 2) next = t;
    } else {
      while (sw_idx < C.nsw && C.sw_y[sw_idx] < y && C.sw_y[sw_idx] != 0) sw_idx++; // stale entries of a shrunk schedule
    }
    break;
  case SCHED_PCT:
    for (int i = 0; i < pct_ncp; i++) if (pct_cp[i] == y) { T[cur].prio = pct_low--; }
    { int b = best_prio(-1); if (b != cur && b >= 0) next = b; }
    break;
  case SCHED_API:
    if (kind != 2) break;
    /* fallthrough */
  case SCHED_RANDOM: {
    if (rnd() % C.p_den < C.p_num) {
      int n = nrunnable(cur);
      if (n > 0) next = kth_runnable((int)(rnd() % (uint64_t)n), cur);
    }
    break; }
  case SCHED_BURST:
    if (burst_left > 0) { burst_left--; break; }
    burst_left = 1 + rnd() % (C.p_den ? C.p_den : 64);
    { int n = nrunnable(cur); if (n > 0) next = kth_runnable((int)(rnd() % (uint64_t)n), cur); }
    break;
  }
  if (next < 0 || next == cur) return;
  ST.switches++;
  if (kind == 0) ST.switches_in_edge++; else ST.switches_in_wrap++;
  ST.sig = (ST.sig ^ (uint64_t)(cur * 131 + next)) * 1099511628211ull;
  ST.sig = (ST.sig ^ (uint64_t)edge ^ ((uint64_t)kind << 32)) * 1099511628211ull;
  record(y, next);
  fwake(&T[next].fut);
  fwait(&T[cur].fut);
}

void sim_yield(int kind) {
  if (sched_active) sched_point(kind, 0);
}

// ---- SanitizerCoverage callbacks -------------------------------------------
void __sanitizer_cov_trace_pc_guard_init(uint32_t *start, uint32_t *stop) {
  if (start == stop || *start) return;
  uint32_t n = sim_nguards;
  for (uint32_t *x = start; x < stop; x++) *x = ++n;
  sim_cov = (unsigned char *)realloc(sim_cov, n + 1);
  memset(sim_cov + sim_nguards, 0, n + 1 - sim_nguards);
  sim_nguards = n;
}
void __sanitizer_cov_pcs_init(const uintptr_t *b, const uintptr_t *e) {
  if (!sim_pcs_beg) { sim_pcs_beg = b; sim_pcs_end = e; }
}
void __sanitizer_cov_trace_pc_guard(uint32_t *guard) {
  uint32_t g = *guard;
  if (!g) return;
  sim_cov[g] = 1;
  if (++sim_steps > sim_step_budget) sim_hang();
  if (sched_active) sched_point(0, g);
}

} // extern "C"
