// lesim executor: the simulated world around the real libeconf objects.
//
// Reads plans (one JSON document per line) from stdin, executes each of them
// in-process against the library objects built from <REPO>/lib (unmodified,
// compiled with sanitizers and -fsanitize-coverage=trace-pc-guard) and writes
// one JSON result line per plan.  Everything the library can observe that is
// not a pure function of its arguments goes through this file:
//   * the file layer (lstat/stat/fopen/fclose/getline/getdelim/scandir/realpath
//     wrapped at link time) on a real tmpfs sandbox materialised from the plan,
//   * the allocator family (ledger + seeded fill of fresh bytes),
//   * the caller's callback,
//   * process-wide library settings (normalised at the start of every run),
//   * the order in which caller threads run (sched.cc).
// No clock, no pid, no pointer value and no sandbox path enters the result:
// the sandbox root is printed as $ROOT.
#include <nlohmann/json.hpp>
#include <algorithm>
#include <map>
#include <set>
#include <string>
#include <unordered_map>
#include <vector>
#include <cinttypes>
#include <cstdarg>
#include <cstdio>
#include <cstdlib>
#include <cstring>
#include <dirent.h>
#include <errno.h>
#include <fcntl.h>
#include <ftw.h>
#include <locale.h>
#include <poll.h>
#include <pthread.h>
#include <spawn.h>
#include <sys/stat.h>
#include <sys/resource.h>
#include <sys/types.h>
#include <sys/wait.h>
#include <unistd.h>
#include "sched.h"

extern "C" {
#include "libeconf.h"
#include "libeconf_ext.h"
}

using json = nlohmann::json;

// ---------------------------------------------------------------------------
// sanitizer glue
// ---------------------------------------------------------------------------
extern "C" {
#if defined(LESIM_ASAN)
__attribute__((used, visibility("default"))) const char *__asan_default_options() {
  return "exitcode=77:detect_leaks=0:abort_on_error=0:allocator_may_return_null=1:handle_abort=1:detect_stack_use_after_return=0";
}
__attribute__((used, visibility("default"))) const char *__ubsan_default_options() {
  return "print_stacktrace=1:halt_on_error=1:exitcode=77";
}
#endif
#if defined(LESIM_TSAN)
__attribute__((used, visibility("default"))) const char *__tsan_default_options() {
  // deadly signals are not reported by the runtime (its report path takes allocator locks inside the signal handler and
  // can dead-lock): the process dies of the signal and the driver classifies the exit status
  return "halt_on_error=0:report_signal_unsafe=0:exitcode=0:second_deadlock_stack=0:history_size=4:handle_segv=0:handle_sigbus=0:handle_abort=0:handle_sigill=0:handle_sigfpe=0";
}
#endif
int __sanitizer_get_ownership(const volatile void *p) __attribute__((weak));
}

// ---------------------------------------------------------------------------
// bytes <-> JSON strings.  A JSON string is a sequence of code points < 256,
// each standing for one byte (latin-1), so arbitrary file content survives.
// ---------------------------------------------------------------------------
static std::string g_root;           // real sandbox root, printed as $ROOT

static std::string b2u(const std::string &b) {       // bytes -> UTF-8 of latin-1
  std::string u; u.reserve(b.size());
  for (unsigned char c : b) { if (c < 0x80) u += (char)c; else { u += (char)(0xC0 | (c >> 6)); u += (char)(0x80 | (c & 0x3F)); } }
  return u;
}
static std::string u2b(const std::string &u) {       // UTF-8 (code points < 256) -> bytes
  std::string b; b.reserve(u.size());
  for (size_t i = 0; i < u.size(); i++) {
    unsigned char c = u[i];
    if (c < 0x80) b += (char)c;
    else if ((c & 0xE0) == 0xC0 && i + 1 < u.size()) { b += (char)(((c & 0x1F) << 6) | (u[i + 1] & 0x3F)); i++; }
    else b += '?';
  }
  return b;
}
static std::string subst_in(const std::string &s) {   // $ROOT -> real root
  std::string r; size_t i = 0;
  for (;;) { size_t k = s.find("$ROOT", i); if (k == std::string::npos) { r += s.substr(i); break; } r += s.substr(i, k - i); r += g_root; i = k + 5; }
  return r;
}
static std::string subst_out(const std::string &s) {  // real root -> $ROOT
  if (g_root.empty()) return s;
  std::string r; size_t i = 0;
  for (;;) { size_t k = s.find(g_root, i); if (k == std::string::npos) { r += s.substr(i); break; } r += s.substr(i, k - i); r += "$ROOT"; i = k + g_root.size(); }
  return r;
}
static json J(const std::string &bytes) { return b2u(subst_out(bytes)); }
static json J(const char *p) { if (!p) return nullptr; return J(std::string(p)); }

struct OptStr {                 // optional C string argument taken from a plan
  bool null = true; std::string s; const char *fixed = nullptr;
  const char *c() const { return null ? nullptr : (fixed ? fixed : s.c_str()); }
};
// A caller may keep its delimiter / comment / suffix / name strings in buffers that it reuses from call
// to call: the same address then carries different text over time.  The executor does exactly that, so
// that library state keyed by argument ADDRESS instead of content cannot go unnoticed.
static void pin(OptStr &o, int slot) {
  static thread_local char bufs[8][512];
  if (o.null || o.s.size() + 1 > sizeof bufs[0] || memchr(o.s.data(), 0, o.s.size())) return;
  memcpy(bufs[slot], o.s.c_str(), o.s.size() + 1);
  o.fixed = bufs[slot];
}
static OptStr S(const json &o, const char *key) {
  OptStr r; auto it = o.find(key);
  if (it == o.end() || it->is_null()) return r;
  r.null = false; r.s = subst_in(u2b(it->get<std::string>()));
  return r;
}
static std::string SS(const json &o, const char *key, const char *def = "") {
  auto it = o.find(key);
  if (it == o.end() || it->is_null()) return def;
  return subst_in(u2b(it->get<std::string>()));
}
static long long I(const json &o, const char *key, long long def = 0) {
  auto it = o.find(key);
  if (it == o.end() || it->is_null()) return def;
  return it->get<long long>();
}

// ---------------------------------------------------------------------------
// per-run PRNG for the I/O layer (shuffle order, chunk sizes) - never used for logging
// ---------------------------------------------------------------------------
struct Rng {
  uint64_t s = 1;
  uint64_t next() { uint64_t z = (s += 0x9e3779b97f4a7c15ull); z = (z ^ (z >> 30)) * 0xbf58476d1ce4e5b9ull; z = (z ^ (z >> 27)) * 0x94d049bb133111ebull; return z ^ (z >> 31); }
  uint64_t below(uint64_t n) { return n ? next() % n : 0; }
};

// ---------------------------------------------------------------------------
// run state
// ---------------------------------------------------------------------------
struct Event { uint64_t seq; int task; int op; std::string what, path; long long res; int err; };

struct Fault { std::string kind, path; long long a = 0, b = 0; bool fired = false; };

struct LedgerEnt { size_t size; int op; int task; int cls; const char *fn; void *ra; uint64_t serial; };

static struct Run {
  // configuration of this run
  bool shuffle = false, dtype_unknown = false, ledger_on = true, passthrough = false;
  int short_reads = 0;           // 0: whole-buffer reads through the real FILE; n>0: cookie stream, chunks 1..n
  int fill = -1;                 // fill byte for fresh heap bytes, -1: none
  uint64_t errno_noise = 0;      // != 0: errno holds a seeded value after every SUCCESSFUL wrapped libc call and at every API entry
  long long n_errno_noise = 0;
  Rng io;
  // event log (appended only by the baton holder)
  std::vector<Event> ev;
  uint64_t seq = 0;
  // fault counters: fired, by kind
  std::map<std::string, long long> fired;
  // ledger
  std::unordered_map<void *, LedgerEnt> live;
  uint64_t serial = 0;
  long long n_alloc = 0, n_free = 0, n_unknown_free = 0;
  std::unordered_map<FILE *, std::pair<int, std::string>> files;   // open FILE* -> (op, path)
  long long n_fopen = 0, n_fclose = 0;
  std::vector<json> anomalies;
} R;
// POSIX leaves errno unspecified after a successful call; a caller may also enter the library with any errno.
// Fault kind "errno_noise": seeded garbage in errno wherever that is legal.
static inline int en(int e, bool ok) {
  if (!ok || !R.errno_noise) return e;
  R.errno_noise += 0x9E3779B97F4A7C15ull;
  uint64_t z = R.errno_noise; z = (z ^ (z >> 30)) * 0xBF58476D1CE4E5B9ull; z = (z ^ (z >> 27)) * 0x94D049BB133111EBull; z ^= z >> 31;
  static const int tab[] = {0, ERANGE, EINTR, ENOENT, ENOMEM, EAGAIN, ENOTTY, EINVAL};
  int v = tab[z & 7];
  if (v) R.n_errno_noise++;
  return v;
}

struct TaskCtx {
  int id = 0;
  int op = -1;                       // index of the operation being executed
  int inlib = 0;                     // >0 while inside a library call issued by the interpreter
  int inwrap = 0;                    // >0 while inside a wrapper / harness code called from the library
  int alloc_cls = 0;                 // 1 while inside econf_set_conf_dirs (process-wide allocations)
  std::vector<Fault> *faults = nullptr;
  std::map<int, econf_file *> slots;
  std::map<int, std::pair<econf_file **, size_t>> hslots;
};
static thread_local TaskCtx *tc = nullptr;

static inline bool in_lib() { return tc && tc->inlib > 0 && tc->inwrap == 0; }
// ThreadSanitizer flavour: memory accesses are recorded only while library code runs.  Every thread
// starts inside an "ignore" region (harness code, incl. libc calls made by it through interceptors);
// entering the library leaves the region, wrappers and the callback re-enter it.
extern "C" {
void AnnotateIgnoreReadsBegin(const char *, int) __attribute__((weak));
void AnnotateIgnoreReadsEnd(const char *, int) __attribute__((weak));
void AnnotateIgnoreWritesBegin(const char *, int) __attribute__((weak));
void AnnotateIgnoreWritesEnd(const char *, int) __attribute__((weak));
}
static inline void tsan_ignore_begin() { if (AnnotateIgnoreReadsBegin) { AnnotateIgnoreReadsBegin(__FILE__, __LINE__); AnnotateIgnoreWritesBegin(__FILE__, __LINE__); } }
static inline void tsan_ignore_end() { if (AnnotateIgnoreReadsEnd) { AnnotateIgnoreReadsEnd(__FILE__, __LINE__); AnnotateIgnoreWritesEnd(__FILE__, __LINE__); } }
static inline void lib_enter() { tc->inlib++; if (tc->inlib == 1) { tsan_ignore_end(); errno = en(errno, true); } }
static inline void lib_leave() { if (tc->inlib == 1) tsan_ignore_begin(); tc->inlib--; }
struct WrapGuard {
  bool on;
  WrapGuard() : on(tc != nullptr) { if (on) { if (tc->inwrap == 0 && tc->inlib > 0) tsan_ignore_begin(); tc->inwrap++; } }
  ~WrapGuard() { if (on) { tc->inwrap--; if (tc->inwrap == 0 && tc->inlib > 0) tsan_ignore_end(); } }
};

static void log_event(const char *what, const std::string &path, long long res, int err) {
  Event e; e.seq = ++R.seq; e.task = tc ? tc->id : -1; e.op = tc ? tc->op : -1; e.what = what; e.path = path; e.res = res; e.err = err;
  R.ev.push_back(std::move(e));
}
static std::string g_cwd;            // working directory of the run (plans may use relative names)
static std::string normp(const std::string &q) {     // absolute, repeated slashes and "." segments removed
  std::string p = q;
  if (!p.empty() && p[0] != '/' && !g_cwd.empty()) p = g_cwd + "/" + p;
  std::string n; size_t i = 0;
  while (i < p.size()) {
    size_t j = p.find('/', i); if (j == std::string::npos) j = p.size();
    std::string seg = p.substr(i, j - i);
    if (!seg.empty() && seg != ".") { n += '/'; n += seg; }
    i = j + 1;
  }
  if (n.empty()) n = "/";
  if (!q.empty() && q[0] != '/' && g_cwd.empty()) return n.substr(1);
  return n;
}
static std::string collapse(const std::string &p) {   // repeated slashes and "." segments removed, NOT made absolute
  bool abs = !p.empty() && p[0] == '/';
  std::string n; size_t i = 0;
  while (i < p.size()) {
    size_t j = p.find('/', i); if (j == std::string::npos) j = p.size();
    std::string seg = p.substr(i, j - i);
    if (!seg.empty() && seg != ".") { if (!n.empty() || abs) n += '/'; n += seg; }
    i = j + 1;
  }
  return n.empty() ? (abs ? "/" : ".") : n;
}
static Fault *find_fault(const char *kind, const char *path) {
  if (!tc || !tc->faults) return nullptr;
  for (auto &f : *tc->faults) if (!f.fired && f.kind == kind && (f.path.empty() || (path && normp(f.path) == normp(path)))) return &f;
  return nullptr;
}
static void fire(Fault *f) { f->fired = true; R.fired[f->kind]++; }

// ---------------------------------------------------------------------------
// ledger
// ---------------------------------------------------------------------------
static void led_add(void *p, size_t size, const char *fn, void *ra) {
  if (!p || !R.ledger_on) return;
  LedgerEnt e{size, tc ? tc->op : -1, tc ? tc->id : -1, tc ? tc->alloc_cls : 0, fn, ra, ++R.serial};
  R.live[p] = e; R.n_alloc++;
}
static bool led_del(void *p, size_t *old_size = nullptr) {
  if (!p || !R.ledger_on) return false;
  auto it = R.live.find(p);
  if (it == R.live.end()) { R.n_unknown_free++; return false; }
  if (old_size) *old_size = it->second.size;
  R.live.erase(it); R.n_free++;
  return true;
}

extern "C" {
void *__real_malloc(size_t); void *__real_calloc(size_t, size_t); void *__real_realloc(void *, size_t); void __real_free(void *);
char *__real_strdup(const char *); char *__real_strndup(const char *, size_t);
int __real_vasprintf(char **, const char *, va_list);
ssize_t __real_getline(char **, size_t *, FILE *); ssize_t __real_getdelim(char **, size_t *, int, FILE *);
ssize_t __real___getdelim(char **, size_t *, int, FILE *);
int __real_lstat(const char *, struct stat *); int __real_stat(const char *, struct stat *);
FILE *__real_fopen(const char *, const char *); int __real_fclose(FILE *);
int __real_scandir(const char *, struct dirent ***, int (*)(const struct dirent *), int (*)(const struct dirent **, const struct dirent **));
char *__real_realpath(const char *, char *);

void *__wrap_malloc(size_t n) {
  void *p = __real_malloc(n);
  if (in_lib()) { WrapGuard g; if (p && R.fill >= 0) memset(p, R.fill, n); led_add(p, n, "malloc", __builtin_return_address(0)); if (p) errno = en(errno, true); }
  return p;
}
void *__wrap_calloc(size_t a, size_t b) {
  void *p = __real_calloc(a, b);
  if (in_lib()) { WrapGuard g; led_add(p, a * b, "calloc", __builtin_return_address(0)); if (p) errno = en(errno, true); }
  return p;
}
void *__wrap_realloc(void *q, size_t n) {
  if (!in_lib()) return __real_realloc(q, n);
  WrapGuard g;
  size_t old = 0; bool known = q ? led_del(q, &old) : false;
  if (q && !known) R.n_unknown_free--;          // not a free
  void *p = __real_realloc(q, n);
  if (p) {
    if (R.fill >= 0 && (known || !q) && n > old) memset((char *)p + old, R.fill, n - old);
    led_add(p, n, "realloc", __builtin_return_address(0));
  } else if (known && n != 0) {
    led_add(q, old, "realloc", __builtin_return_address(0));   // failed: old block stays
  }
  return p;
}
void __wrap_free(void *p) {
  if (in_lib() && p) { WrapGuard g; led_del(p); }
  __real_free(p);
}
char *__wrap_strdup(const char *s) {
  char *p = __real_strdup(s);
  if (in_lib()) { WrapGuard g; led_add(p, p ? strlen(p) + 1 : 0, "strdup", __builtin_return_address(0)); if (p) errno = en(errno, true); }
  return p;
}
char *__wrap_strndup(const char *s, size_t n) {
  char *p = __real_strndup(s, n);
  if (in_lib()) { WrapGuard g; led_add(p, p ? strlen(p) + 1 : 0, "strndup", __builtin_return_address(0)); }
  return p;
}
int __wrap_vasprintf(char **out, const char *fmt, va_list ap) {
  int r = __real_vasprintf(out, fmt, ap);
  if (in_lib() && r >= 0) { WrapGuard g; led_add(*out, (size_t)r + 1, "asprintf", __builtin_return_address(0)); }
  return r;
}
int __wrap_asprintf(char **out, const char *fmt, ...) {
  va_list ap; va_start(ap, fmt);
  int r = __real_vasprintf(out, fmt, ap);
  va_end(ap);
  if (in_lib() && r >= 0) { WrapGuard g; led_add(*out, (size_t)r + 1, "asprintf", __builtin_return_address(0)); }
  return r;
}
} // extern "C"

// ---------------------------------------------------------------------------
// file layer
// ---------------------------------------------------------------------------
struct Cookie { int fd; long long off; int maxchunk; long long eio_at; bool eio_armed; };

static ssize_t ck_read(void *c, char *buf, size_t n) {
  Cookie *k = (Cookie *)c;
  WrapGuard g;
  size_t want = n;
  if (k->maxchunk > 0) { size_t lim = 1 + (size_t)R.io.below((uint64_t)k->maxchunk); if (lim < want) want = lim; }
  if (k->eio_armed) {
    if (k->off >= k->eio_at) { k->eio_armed = false; R.fired["eio"]++; errno = EIO; return -1; }
    if ((long long)want > k->eio_at - k->off) want = (size_t)(k->eio_at - k->off);
  }
  ssize_t r = read(k->fd, buf, want);
  if (r > 0) { k->off += r; if ((size_t)r < n) R.fired["short_read"]++; }
  return r;
}
static int ck_close(void *c) { Cookie *k = (Cookie *)c; int r = close(k->fd); __real_free(k); return r; }

extern "C" {
int __wrap_lstat(const char *path, struct stat *sb) {
  if (!in_lib()) return __real_lstat(path, sb);
  sim_yield(1);
  WrapGuard g;
  if (Fault *f = find_fault("lstat_fail", path)) { fire(f); log_event("lstat", path, -1, (int)f->a); errno = (int)f->a; return -1; }
  int r = __real_lstat(path, sb); int e = errno;
  log_event("lstat", path ? path : "", r, r ? e : 0);
  errno = en(e, r == 0); return r;
}
int __wrap_stat(const char *path, struct stat *sb) {
  if (!in_lib()) return __real_stat(path, sb);
  sim_yield(1);
  WrapGuard g;
  int r = __real_stat(path, sb); int e = errno;
  log_event("stat", path ? path : "", r, r ? e : 0);
  errno = en(e, r == 0); return r;
}
FILE *__wrap_fopen(const char *path, const char *mode) {
  if (!in_lib()) return __real_fopen(path, mode);
  sim_yield(1);
  WrapGuard g;
  bool rd = mode && mode[0] == 'r';
  if (Fault *f = find_fault("fopen_fail", path)) { fire(f); log_event(rd ? "fopen_r" : "fopen_w", path, -1, (int)f->a); errno = (int)f->a; return nullptr; }
  FILE *fp = nullptr; int e = 0;
  Fault *eio = rd ? find_fault("eio", path) : nullptr;
  if (rd && !R.passthrough && (R.short_reads > 0 || eio)) {
    int fd = open(path, O_RDONLY | O_CLOEXEC);
    if (fd < 0) e = errno;
    else {
      Cookie *k = (Cookie *)__real_malloc(sizeof(Cookie));
      k->fd = fd; k->off = 0; k->maxchunk = R.short_reads; k->eio_at = eio ? eio->a : 0; k->eio_armed = eio != nullptr;
      if (eio) eio->fired = true;     // counted when the error is actually delivered
      cookie_io_functions_t io = {ck_read, nullptr, nullptr, ck_close};
      fp = fopencookie(k, "r", io);
      if (!fp) { e = errno; close(fd); __real_free(k); }
    }
  } else {
    fp = __real_fopen(path, mode); e = errno;
  }
  log_event(rd ? "fopen_r" : "fopen_w", path ? path : "", fp ? 0 : -1, fp ? 0 : e);
  if (fp) { R.files[fp] = {tc ? tc->op : -1, path ? path : ""}; R.n_fopen++; }
  errno = en(e, fp != nullptr); return fp;
}
int __wrap_fclose(FILE *fp) {
  if (!in_lib()) return __real_fclose(fp);
  sim_yield(1);
  WrapGuard g;
  auto it = R.files.find(fp);
  std::string p = it != R.files.end() ? it->second.second : "?";
  if (it != R.files.end()) { R.files.erase(it); R.n_fclose++; }
  int r = __real_fclose(fp); int e = errno;
  log_event("fclose", p, r, r ? e : 0);
  errno = en(e, r == 0); return r;
}
static ssize_t getdelim_common(char **line, size_t *n, int delim, FILE *fp, void *ra) {
  sim_yield(1);
  WrapGuard g;
  char *before = line ? *line : nullptr;
  ssize_t r = __real_getdelim(line, n, delim, fp); int e = errno;
  if (line && *line != before) {      // libc reallocated (or allocated) the caller's buffer
    size_t old = 0; bool known = before ? led_del(before, &old) : false;
    if (before && !known) R.n_unknown_free--;
    if (*line) led_add(*line, *n, "getline", ra);
  } else if (line && *line) {
    auto it = R.live.find(*line); if (it != R.live.end()) it->second.size = *n;
  }
  errno = en(e, r >= 0); return r;
}
ssize_t __wrap_getline(char **line, size_t *n, FILE *fp) {
  if (!in_lib()) return __real_getline(line, n, fp);
  return getdelim_common(line, n, '\n', fp, __builtin_return_address(0));
}
// with optimisation glibc's <bits/stdio.h> turns getline() into a call of __getdelim()
ssize_t __wrap___getdelim(char **line, size_t *n, int d, FILE *fp) {
  if (!in_lib()) return __real___getdelim(line, n, d, fp);
  return getdelim_common(line, n, d, fp, __builtin_return_address(0));
}
ssize_t __wrap_getdelim(char **line, size_t *n, int d, FILE *fp) {
  if (!in_lib()) return __real_getdelim(line, n, d, fp);
  return getdelim_common(line, n, d, fp, __builtin_return_address(0));
}
char *__wrap_realpath(const char *path, char *resolved) {
  if (!in_lib()) return __real_realpath(path, resolved);
  sim_yield(1);
  WrapGuard g;
  char *r = __real_realpath(path, resolved); int e = errno;
  log_event("realpath", path ? path : "", r ? 0 : -1, r ? 0 : e);
  if (r && !resolved) led_add(r, strlen(r) + 1, "realpath", __builtin_return_address(0));
  errno = en(e, r != nullptr); return r;
}
int __wrap_scandir(const char *dir, struct dirent ***namelist, int (*filter)(const struct dirent *),
                   int (*compar)(const struct dirent **, const struct dirent **)) {
  if (!in_lib()) return __real_scandir(dir, namelist, filter, compar);
  sim_yield(1);
  WrapGuard g;
  if (Fault *f = find_fault("scandir_fail", dir)) {
    struct stat sb;
    if (__real_stat(dir, &sb) == 0) { fire(f); log_event("scandir", dir, -1, (int)f->a); errno = (int)f->a; return -1; }
  }
  struct dirent **list = nullptr;
  int n = __real_scandir(dir, &list, filter, nullptr); int e = errno;
  if (n < 0) { log_event("scandir", dir ? dir : "", n, e); errno = e; return n; }
  // canonical start order (tmpfs order is not part of the run's identity), then seeded shuffle
  std::sort(list, list + n, [](struct dirent *a, struct dirent *b) { return strcmp(a->d_name, b->d_name) < 0; });
  if (R.shuffle && !R.passthrough && n > 1) {
    for (int i = n - 1; i > 0; i--) { int j = (int)R.io.below((uint64_t)i + 1); std::swap(list[i], list[j]); }
    R.fired["shuffle"]++;
  }
  if (R.dtype_unknown && !R.passthrough) { for (int i = 0; i < n; i++) list[i]->d_type = DT_UNKNOWN; if (n) R.fired["dtype_unknown"]++; }
  if (compar) qsort(list, (size_t)n, sizeof *list, (int (*)(const void *, const void *))compar);
  else if (!R.shuffle || R.passthrough) { /* caller asked for no order: keep the canonical one */ }
  // the library owns (and must free) every entry and the array
  for (int i = 0; i < n; i++) led_add(list[i], sizeof(struct dirent), "scandir", __builtin_return_address(0));
  led_add(list, sizeof(*list) * (size_t)(n ? n : 1), "scandir", __builtin_return_address(0));
  log_event("scandir", dir ? dir : "", n, 0);
  // environment actor: files that vanish right after they were listed
  if (tc && tc->faults) for (auto &f : *tc->faults) if (!f.fired && f.kind == "vanish") {
    std::string np = normp(f.path); std::string d = np.substr(0, np.rfind('/'));
    if (d != normp(dir)) continue;
    if (unlink(f.path.c_str()) == 0) { fire(&f); log_event("env_unlink", f.path, 0, 0); }
  }
  *namelist = list;
  errno = en(errno, true);
  return n;
}
} // extern "C"

// ---------------------------------------------------------------------------
// the caller's callback
// ---------------------------------------------------------------------------
struct CbCtx {
  uint64_t magic = 0x1e51ca11bac0ffeeull;
  std::set<std::string> reject_paths;
  std::set<long long> reject_idx;
  std::set<std::string> reject_base;
  std::set<std::string> reject_norm;
  std::set<std::string> reject_spelled;
  bool nested = false; std::string n_usr, n_etc, n_name, n_suffix;   // the callback itself uses the library (re-entrancy)
  bool reject_unlink = false;     // a quarantining check: the rejected file is moved away by the callback itself
  long long calls = 0;
};
static thread_local CbCtx *t_expected_cb = nullptr;

static bool the_callback(const char *filename, const void *data) {
  WrapGuard g;
  sim_yield(1);
  const CbCtx *c = (const CbCtx *)data;
  bool data_ok = (c == t_expected_cb) && c && c->magic == 0x1e51ca11bac0ffeeull;
  CbCtx *m = t_expected_cb;
  long long idx = m ? m->calls++ : -1;
  bool accept = true;
  std::string fn = filename ? filename : "";
  if (m && m->nested) {
    // a callback may consult configuration of its own (e.g. an accept/reject policy) through the same library
    econf_file *pk = nullptr;
#pragma GCC diagnostic push
#pragma GCC diagnostic ignored "-Wdeprecated-declarations"
    econf_err prc = econf_readDirs(&pk, m->n_usr.c_str(), m->n_etc.c_str(), m->n_name.c_str(), m->n_suffix.c_str(), "=", "#");
#pragma GCC diagnostic pop
    if (prc == ECONF_SUCCESS) { char *pv = nullptr; if (econf_getStringValue(pk, nullptr, "policy", &pv) == ECONF_SUCCESS) free(pv); }
    econf_freeFile(pk);
    R.fired["nested_library_call_in_callback"]++;
  }
  if (m) {
    if (m->reject_paths.count(fn)) accept = false;
    if (!m->reject_norm.empty() && m->reject_norm.count(normp(fn))) accept = false;   // compared as normalised absolute paths
    if (!m->reject_spelled.empty() && m->reject_spelled.count(collapse(fn))) accept = false;   // the caller's own spelling (relative stays relative)
    if (m->reject_idx.count(idx)) accept = false;
    size_t sl = fn.rfind('/');
    if (m->reject_base.count(sl == std::string::npos ? fn : fn.substr(sl + 1))) accept = false;
  }
  if (!accept) R.fired["veto"]++;
  if (!accept && m->reject_unlink) { if (unlink(filename) == 0) { R.fired["callback_removes_rejected_file"]++; log_event("env_unlink", fn, 0, 0); } }
  log_event(accept ? "cb_accept" : "cb_reject", fn, data_ok ? 1 : 0, 0);
  errno = en(errno, true);      // a caller's callback may leave anything in errno (it looked for a signature file, ...)
  return accept;
}
static void cb_setup(const json &op, CbCtx &c) {
  auto it = op.find("cb");
  if (it == op.end() || it->is_null()) return;
  if (it->contains("reject_paths")) for (auto &p : (*it)["reject_paths"]) c.reject_paths.insert(subst_in(u2b(p.get<std::string>())));
  if (it->contains("reject_idx")) for (auto &p : (*it)["reject_idx"]) c.reject_idx.insert(p.get<long long>());
  if (it->contains("reject_norm")) for (auto &p : (*it)["reject_norm"]) c.reject_norm.insert(normp(subst_in(u2b(p.get<std::string>()))));
  if (it->contains("reject_spelled")) for (auto &p : (*it)["reject_spelled"]) c.reject_spelled.insert(collapse(subst_in(u2b(p.get<std::string>()))));
  if (it->contains("nested")) { const json &n = (*it)["nested"]; c.nested = true; c.n_usr = SS(n, "usr"); c.n_etc = SS(n, "etc"); c.n_name = SS(n, "name"); c.n_suffix = SS(n, "suffix"); }
  c.reject_unlink = it->value("reject_unlink", false);
  if (it->contains("reject_base")) for (auto &p : (*it)["reject_base"]) c.reject_base.insert(u2b(p.get<std::string>()));
}

// ---------------------------------------------------------------------------
// sandbox tree
// ---------------------------------------------------------------------------
static int rm_cb(const char *p, const struct stat *, int, struct FTW *f) { if (f->level > 0) remove(p); return 0; }
static void clear_sandbox() { nftw(g_root.c_str(), rm_cb, 32, FTW_DEPTH | FTW_PHYS); }
static void mkdirs(const std::string &p) {
  for (size_t i = 1; i <= p.size(); i++) if (i == p.size() || p[i] == '/') { std::string d = p.substr(0, i); mkdir(d.c_str(), 0755); }
}
static bool write_file(const std::string &p, const std::string &c) {
  size_t sl = p.rfind('/'); if (sl != std::string::npos && sl > 0) mkdirs(p.substr(0, sl));
  int fd = open(p.c_str(), O_WRONLY | O_CREAT | O_TRUNC | O_CLOEXEC, 0644);
  if (fd < 0) return false;
  size_t off = 0; while (off < c.size()) { ssize_t w = write(fd, c.data() + off, c.size() - off); if (w <= 0) break; off += (size_t)w; }
  close(fd); return off == c.size();
}
static bool read_whole(const std::string &p, std::string &out) {
  int fd = open(p.c_str(), O_RDONLY | O_CLOEXEC); if (fd < 0) return false;
  char buf[65536]; ssize_t r; out.clear();
  while ((r = read(fd, buf, sizeof buf)) > 0) out.append(buf, (size_t)r);
  close(fd); return true;
}
static bool g_nofile_saved = false; static rlim_t g_nofile_soft = 0;
static bool g_fd0_closed = false;
static long count_fds() {
  long n = 0; DIR *d = opendir("/proc/self/fd"); if (!d) return -1;
  while (readdir(d)) n++;
  closedir(d);
  return n - 3;     // ".", ".." and the descriptor of this very listing
}
static json tree_entry(const json &e) {
  std::string t = e.value("t", "f");
  std::string p = SS(e, "p");
  json r = json::object();
  if (p.compare(0, g_root.size(), g_root) != 0 || (p.size() > g_root.size() && p[g_root.size()] != '/')) { r["err"] = "outside sandbox"; return r; }
  if (t == "d") { mkdirs(p); if (e.contains("mode")) chmod(p.c_str(), (mode_t)I(e, "mode")); }
  else if (t == "f") { if (!write_file(p, SS(e, "c"))) r["err"] = errno; if (e.contains("mode")) chmod(p.c_str(), (mode_t)I(e, "mode")); }
  else if (t == "l") { size_t sl = p.rfind('/'); if (sl != std::string::npos && sl > 0) mkdirs(p.substr(0, sl)); unlink(p.c_str()); if (symlink(SS(e, "to").c_str(), p.c_str())) r["err"] = errno; }
  if (e.contains("uid") || e.contains("gid")) {
    if (lchown(p.c_str(), (uid_t)I(e, "uid", -1), (gid_t)I(e, "gid", -1))) r["err"] = errno;
  }
  return r;
}

// ---------------------------------------------------------------------------
// dumping an object through the public read-only API
// ---------------------------------------------------------------------------
static json dump_ext(econf_file *kf, const char *group, const char *key) {
  json r = json::object();
  econf_ext_value *ev = nullptr;
  lib_enter(); econf_err rc = econf_getExtValue(kf, group, key, &ev); lib_leave();
  r["rc"] = (int)rc;
  if (rc == ECONF_SUCCESS && ev) {
    json vals = json::array();
    for (char **v = ev->values; v && *v; v++) vals.push_back(J(*v));
    r["values"] = vals; r["file"] = J(ev->file); r["line"] = ev->line_number;
    r["cb"] = J(ev->comment_before_key); r["ca"] = J(ev->comment_after_value);
    lib_enter(); econf_freeExtValue(ev); lib_leave();
  }
  return r;
}
static json dump_keys(econf_file *kf, const char *group, bool ext) {
  json r = json::object();
  size_t n = 0; char **keys = nullptr;
  lib_enter(); econf_err rc = econf_getKeys(kf, group, &n, &keys); lib_leave();
  r["rc"] = (int)rc;
  if (rc != ECONF_SUCCESS) return r;
  json ks = json::array();
  for (size_t i = 0; i < n; i++) {
    json k = json::object();
    k["k"] = J(keys[i]);
    char *val = nullptr;
    lib_enter(); econf_err vr = econf_getStringValue(kf, group, keys[i], &val); lib_leave();
    k["rc"] = (int)vr;
    if (vr == ECONF_SUCCESS) { k["v"] = J(val); lib_enter(); free(val); lib_leave(); }
    if (ext) k["x"] = dump_ext(kf, group, keys[i]);
    ks.push_back(k);
  }
  r["keys"] = ks;
  lib_enter(); econf_freeArray(keys); lib_leave();
  return r;
}
static void dump_head(econf_file *kf, json &r) {
  lib_enter();
  char dl = econf_delimiter_tag(kf), cm = econf_comment_tag(kf);
  char *path = econf_getPath(kf);
  lib_leave();
  r["delim"] = (int)(unsigned char)dl; r["comment"] = (int)(unsigned char)cm; r["path"] = J(path);
  lib_enter(); free(path); lib_leave();
}
// order 0: tags and path first, then the listings; order 1: listings and values first, tags and path last.
// (A query that changes what a DIFFERENT query answers later is only visible if the other one was observed before it.)
static json dump_obj(econf_file *kf, bool ext, int order = 0) {
  json r = json::object();
  if (!kf) { r["null"] = true; return r; }
  if (order == 0) dump_head(kf, r);
  size_t ng = 0; char **groups = nullptr;
  lib_enter(); econf_err rc = econf_getGroups(kf, &ng, &groups); lib_leave();
  r["groups_rc"] = (int)rc;
  json gl = json::array();
  r["nogroup"] = dump_keys(kf, nullptr, ext);
  if (rc == ECONF_SUCCESS) {
    for (size_t i = 0; i < ng; i++) { json g = dump_keys(kf, groups[i], ext); g["g"] = J(groups[i]); gl.push_back(g); }
    lib_enter(); econf_freeArray(groups); lib_leave();
  }
  r["groups"] = gl;
  if (order != 0) dump_head(kf, r);
  return r;
}

// every listing and every typed / defaulted / extended getter on every listed key (C04)
static json exercise_obj(econf_file *kf) {
  json r = json::object();
  if (!kf) { r["skipped"] = true; return r; }
  long long calls = 0, bad = 0; std::map<int, long long> rcs;
  auto note = [&](econf_err rc) { calls++; rcs[(int)rc]++; if ((int)rc < 0 || (int)rc > 24) bad++; };
  std::vector<std::string> groups; bool have_groups = false;
  { size_t n = 0; char **g = nullptr; lib_enter(); econf_err rc = econf_getGroups(kf, &n, &g); lib_leave(); note(rc);
    if (rc == ECONF_SUCCESS) { have_groups = true; for (size_t i = 0; i < n; i++) groups.push_back(g[i] ? g[i] : ""); lib_enter(); econf_freeArray(g); lib_leave(); } }
  (void)have_groups;
  lib_enter(); char *pth = econf_getPath(kf); free(pth); (void)econf_delimiter_tag(kf); (void)econf_comment_tag(kf); lib_leave();
  long long nkeys = 0;
  for (size_t gi = 0; gi <= groups.size(); gi++) {
    const char *grp = gi == 0 ? nullptr : groups[gi - 1].c_str();
    size_t n = 0; char **keys = nullptr;
    lib_enter(); econf_err rc = econf_getKeys(kf, grp, &n, &keys); lib_leave(); note(rc);
    if (rc != ECONF_SUCCESS) continue;
    { // the size out-parameter is optional (the array is NULL terminated): the same listing without it
      char **k2 = nullptr; lib_enter(); econf_err rc2 = econf_getKeys(kf, grp, nullptr, &k2); lib_leave(); note(rc2);
      if (rc2 == ECONF_SUCCESS && k2) { size_t m = 0; while (k2[m]) m++; if (m != n) r["listing_without_size_differs"] = true; lib_enter(); econf_freeArray(k2); lib_leave(); } }
    std::string bracketed = grp ? "[" + std::string(grp) + "]" : "";
    for (size_t i = 0; i < n; i++) {
      nkeys++;
      const char *k = keys[i];
      for (int sp = 0; sp < (grp ? 2 : 1); sp++) {
        const char *g = sp == 0 ? grp : bracketed.c_str();
        lib_enter();
        { int32_t v = 0; note(econf_getIntValue(kf, g, k, &v)); note(econf_getIntValueDef(kf, g, k, &v, 1)); }
        { int64_t v = 0; note(econf_getInt64Value(kf, g, k, &v)); note(econf_getInt64ValueDef(kf, g, k, &v, 1)); }
        { uint32_t v = 0; note(econf_getUIntValue(kf, g, k, &v)); note(econf_getUIntValueDef(kf, g, k, &v, 1)); }
        { uint64_t v = 0; note(econf_getUInt64Value(kf, g, k, &v)); note(econf_getUInt64ValueDef(kf, g, k, &v, 1)); }
        { float v = 0; note(econf_getFloatValue(kf, g, k, &v)); note(econf_getFloatValueDef(kf, g, k, &v, 1)); }
        { double v = 0; note(econf_getDoubleValue(kf, g, k, &v)); note(econf_getDoubleValueDef(kf, g, k, &v, 1)); }
        { bool v = false; note(econf_getBoolValue(kf, g, k, &v)); note(econf_getBoolValueDef(kf, g, k, &v, true)); }
        { char *v = nullptr; econf_err e = econf_getStringValue(kf, g, k, &v); note(e); if (e == ECONF_SUCCESS) free(v);
          v = nullptr; char d[] = "d"; e = econf_getStringValueDef(kf, g, k, &v, d); note(e); if (e == ECONF_SUCCESS || e == ECONF_NOKEY) free(v); }
        lib_leave();
      }
      { econf_ext_value *ev = nullptr; lib_enter(); econf_err e = econf_getExtValue(kf, grp, k, &ev); note(e);
        if (e == ECONF_SUCCESS && ev) { for (char **v = ev->values; v && *v; v++) calls += 0 * (long long)strlen(*v); econf_freeExtValue(ev); } lib_leave(); }
    }
    lib_enter(); econf_freeArray(keys); lib_leave();
  }
  r["keys"] = nkeys; r["calls"] = calls; r["rc_out_of_enum"] = bad;
  json h = json::object(); for (auto &x : rcs) h[std::to_string(x.first)] = x.second; r["rcs"] = h;
  return r;
}

// ---------------------------------------------------------------------------
// spawning the real econftool (C19)
// ---------------------------------------------------------------------------
extern char **environ;
static json spawn_tool(const json &op) {
  json r = json::object();
  std::vector<std::string> args; for (auto &a : op["argv"]) args.push_back(subst_in(u2b(a.get<std::string>())));
  std::vector<std::string> envs;
  // inherited environment minus everything the plan sets itself (a name given twice would keep its FIRST, inherited, value);
  // a null value means "not set"
  for (char **e = environ; *e; e++) {
    const char *eq = strchr(*e, '='); std::string key = eq ? std::string(*e, eq - *e) : std::string(*e);
    if (key == "ECONFTOOL_ROOT" || key == "ASAN_OPTIONS") continue;
    if (op.contains("env") && op["env"].contains(key)) continue;
    envs.push_back(*e);
  }
  if (op.contains("env")) for (auto it = op["env"].begin(); it != op["env"].end(); ++it) { if (it.value().is_null()) continue; envs.push_back(it.key() + "=" + subst_in(u2b(it.value().get<std::string>()))); }
  std::vector<char *> av, ev; for (auto &a : args) av.push_back((char *)a.c_str()); av.push_back(nullptr);
  for (auto &e : envs) ev.push_back((char *)e.c_str()); ev.push_back(nullptr);
  int po[2], pe[2]; if (pipe2(po, O_CLOEXEC) || pipe2(pe, O_CLOEXEC)) { r["err"] = "pipe"; return r; }
  posix_spawn_file_actions_t fa; posix_spawn_file_actions_init(&fa);
  posix_spawn_file_actions_adddup2(&fa, po[1], 1); posix_spawn_file_actions_adddup2(&fa, pe[1], 2);
  posix_spawn_file_actions_addopen(&fa, 0, "/dev/null", O_RDONLY, 0);
  pid_t pid; int rc = posix_spawn(&pid, av[0], &fa, nullptr, av.data(), ev.data());
  posix_spawn_file_actions_destroy(&fa);
  close(po[1]); close(pe[1]);
  if (rc) { close(po[0]); close(pe[0]); r["err"] = "spawn"; r["errno"] = rc; return r; }
  std::string out, err; struct pollfd pf[2] = {{po[0], POLLIN, 0}, {pe[0], POLLIN, 0}}; int open_n = 2; char buf[8192];
  while (open_n > 0) {
    if (poll(pf, 2, 20000) <= 0) { kill(pid, SIGKILL); r["timeout"] = true; break; }
    for (int i = 0; i < 2; i++) if (pf[i].fd >= 0 && (pf[i].revents & (POLLIN | POLLHUP | POLLERR))) {
      ssize_t n = read(pf[i].fd, buf, sizeof buf);
      if (n > 0) (i ? err : out).append(buf, (size_t)n); else { close(pf[i].fd); pf[i].fd = -1; open_n--; }
    }
  }
  for (int i = 0; i < 2; i++) if (pf[i].fd >= 0) close(pf[i].fd);
  int st = 0; waitpid(pid, &st, 0);
  r["exit"] = WIFEXITED(st) ? WEXITSTATUS(st) : -1; r["signal"] = WIFSIGNALED(st) ? WTERMSIG(st) : 0;
  r["out"] = J(out); r["err"] = J(err);
  R.fired["tool_spawn"]++;
  return r;
}

// ---------------------------------------------------------------------------
// interpreter
// ---------------------------------------------------------------------------
#define SENTINEL ((econf_file *)(uintptr_t)-1)
#define HSENTINEL ((econf_file **)(uintptr_t)-1)

static econf_file *slot(TaskCtx *t, const json &op, const char *key) {
  auto it = op.find(key);
  if (it == op.end() || it->is_null()) return nullptr;
  auto s = t->slots.find(it->get<int>());
  return s == t->slots.end() ? nullptr : s->second;
}
static void put_slot(TaskCtx *t, int idx, econf_file *p) {
  if (p && p != SENTINEL) t->slots[idx] = p; else t->slots.erase(idx);
}
static const char *ptr_state(const void *p) { return !p ? "null" : (p == (void *)SENTINEL ? "sentinel" : "obj"); }

struct LibCall { LibCall() { sim_yield(2); lib_enter(); } ~LibCall() { lib_leave(); sim_yield(2); } };

template <class T> static json num_json(T v) { return v; }
static json num_json(float v) { uint32_t b; memcpy(&b, &v, 4); char s[64]; snprintf(s, sizeof s, "%.9g", (double)v); return json{{"bits", b}, {"s", s}}; }
static json num_json(double v) { uint64_t b; memcpy(&b, &v, 8); char s[64]; snprintf(s, sizeof s, "%.17g", v); return json{{"bits", b}, {"s", s}}; }

static json exec_op(TaskCtx *t, const json &op) {
  const std::string o = op.at("op").get<std::string>();
  json r = json::object();
  std::vector<Fault> faults;
  if (op.contains("faults")) for (auto &f : op["faults"]) { Fault x; x.kind = f.value("k", ""); x.path = SS(f, "path"); x.a = I(f, "a"); faults.push_back(x); }
  t->faults = faults.empty() ? nullptr : &faults;
  CbCtx cb; bool use_cb = op.contains("cb") && !op["cb"].is_null();
  if (use_cb) cb_setup(op, cb);
  t_expected_cb = use_cb ? &cb : nullptr;
  const void *cbdata = use_cb ? (const void *)&cb : nullptr;
  bool sentinel = op.value("init", "null") == "sentinel";
  int oi = (int)I(op, "o", -1);

#define STR(name) OptStr name = S(op, #name)
  if (op.contains("need")) {
    for (auto &k : op["need"]) if (!slot(t, op, k.get<std::string>().c_str())) { r["skipped"] = true; t->faults = nullptr; t_expected_cb = nullptr; return r; }
  }
  if (o == "newKeyFile") {
    econf_file *kf = sentinel ? SENTINEL : nullptr;
    econf_err rc; { LibCall L; rc = econf_newKeyFile(&kf, (char)I(op, "delim", '='), (char)I(op, "comment", '#')); }
    r["rc"] = (int)rc; r["out"] = ptr_state(kf); put_slot(t, oi, kf);
  } else if (o == "newIniFile") {
    econf_file *kf = sentinel ? SENTINEL : nullptr;
    econf_err rc; { LibCall L; rc = econf_newIniFile(&kf); }
    r["rc"] = (int)rc; r["out"] = ptr_state(kf); put_slot(t, oi, kf);
  } else if (o == "newOpts") {
    econf_file *kf = sentinel ? SENTINEL : nullptr; STR(options);
    econf_err rc; { LibCall L; rc = econf_newKeyFile_with_options(&kf, options.c()); }
    r["rc"] = (int)rc; r["out"] = ptr_state(kf); put_slot(t, oi, kf);
  } else if (o == "readFile") {
    econf_file *kf = sentinel ? SENTINEL : nullptr; STR(path); STR(delim); STR(comment); pin(delim, 0); pin(comment, 1);
    econf_err rc; { LibCall L; rc = use_cb ? econf_readFileWithCallback(&kf, path.c(), delim.c(), comment.c(), the_callback, cbdata)
                                           : econf_readFile(&kf, path.c(), delim.c(), comment.c()); }
    r["rc"] = (int)rc; r["out"] = ptr_state(kf); put_slot(t, oi, kf);
  } else if (o == "readDirs") {
    econf_file *kf = sentinel ? SENTINEL : nullptr; STR(usr); STR(etc); STR(name); STR(suffix); STR(delim); STR(comment); pin(delim, 0); pin(comment, 1); pin(suffix, 2); pin(name, 3);
    econf_err rc; {
      LibCall L;
#pragma GCC diagnostic push
#pragma GCC diagnostic ignored "-Wdeprecated-declarations"
      rc = use_cb ? econf_readDirsWithCallback(&kf, usr.c(), etc.c(), name.c(), suffix.c(), delim.c(), comment.c(), the_callback, cbdata)
                  : econf_readDirs(&kf, usr.c(), etc.c(), name.c(), suffix.c(), delim.c(), comment.c());
#pragma GCC diagnostic pop
    }
    r["rc"] = (int)rc; r["out"] = ptr_state(kf); put_slot(t, oi, kf);
  } else if (o == "readDirsHistory") {
    econf_file **kfs = sentinel ? HSENTINEL : nullptr; size_t size = (size_t)I(op, "size_init", 0);
    STR(usr); STR(etc); STR(name); STR(suffix); STR(delim); STR(comment); pin(delim, 0); pin(comment, 1); pin(suffix, 2); pin(name, 3);
    econf_err rc; { LibCall L; rc = use_cb ? econf_readDirsHistoryWithCallback(&kfs, &size, usr.c(), etc.c(), name.c(), suffix.c(), delim.c(), comment.c(), the_callback, cbdata)
                                           : econf_readDirsHistory(&kfs, &size, usr.c(), etc.c(), name.c(), suffix.c(), delim.c(), comment.c()); }
    r["rc"] = (int)rc; r["out"] = ptr_state(kfs); r["size"] = size;
    if (kfs && kfs != HSENTINEL) {
      if (rc == ECONF_SUCCESS) t->hslots[oi] = {kfs, size};
      else r["anomaly"] = "history pointer set on failure";
    }
  } else if (o == "readConfig") {
    econf_file *kf = nullptr; bool had_in = op.contains("in") && !op["in"].is_null();
    int ii = had_in ? op["in"].get<int>() : -1;
    if (had_in) { kf = slot(t, op, "in"); t->slots.erase(ii); }
    STR(project); STR(usr_subdir); STR(name); STR(suffix); STR(delim); STR(comment); pin(delim, 0); pin(comment, 1); pin(suffix, 2); pin(name, 3); pin(project, 4);
    econf_err rc; { LibCall L; rc = use_cb ? econf_readConfigWithCallback(&kf, project.c(), usr_subdir.c(), name.c(), suffix.c(), delim.c(), comment.c(), the_callback, cbdata)
                                           : econf_readConfig(&kf, project.c(), usr_subdir.c(), name.c(), suffix.c(), delim.c(), comment.c()); }
    r["rc"] = (int)rc; r["out"] = ptr_state(kf); put_slot(t, oi, kf);
  } else if (o == "merge") {
    econf_file *m = sentinel ? SENTINEL : nullptr; econf_file *a = slot(t, op, "usr"), *b = slot(t, op, "etc");
    // the caller's result variable may still hold one of the inputs when the call is made (cfg = merge(cfg, next)
    // written as econf_mergeFiles(&cfg, cfg, next) while another handle on the input is kept): it is an OUT parameter
    std::string rinit = op.value("init", "null");
    if (rinit == "usr") m = a; else if (rinit == "etc") m = b;
    econf_err rc; { LibCall L; rc = econf_mergeFiles(&m, a, b); }
    r["rc"] = (int)rc; r["out"] = ptr_state(m);
    if (rc == ECONF_SUCCESS && (m == a || m == b)) { r["aliased"] = true; m = nullptr; }     // an input came back as the result
    if (rc != ECONF_SUCCESS && (m == a || m == b)) m = nullptr;
    put_slot(t, oi, m);
  } else if (o == "write") {
    econf_file *kf = slot(t, op, "k"); STR(dir); STR(name);
    econf_err rc; { LibCall L; rc = econf_writeFile(kf, dir.c(), name.c()); }
    r["rc"] = (int)rc;
    if (rc == ECONF_SUCCESS && op.value("readback", false)) { std::string c; if (read_whole(dir.s + "/" + name.s, c)) r["bytes"] = J(c); }
    if (rc == ECONF_SUCCESS) { struct stat wsb; if (__real_stat((dir.s + "/" + name.s).c_str(), &wsb) == 0) r["mode"] = (int)(wsb.st_mode & 07777); }
  } else if (o == "getGroups") {
    econf_file *kf = slot(t, op, "k"); size_t n = 0; char **g = nullptr;
    econf_err rc; { LibCall L; rc = econf_getGroups(kf, &n, &g); }
    r["rc"] = (int)rc;
    if (rc == ECONF_SUCCESS) { json a = json::array(); for (size_t i = 0; i < n; i++) a.push_back(J(g[i])); r["v"] = a; r["terminated"] = (g && g[n] == nullptr); LibCall L; econf_freeArray(g); }
  } else if (o == "getKeys") {
    econf_file *kf = slot(t, op, "k"); STR(group); size_t n = 0; char **g = nullptr;
    econf_err rc; { LibCall L; rc = econf_getKeys(kf, group.c(), &n, &g); }
    r["rc"] = (int)rc;
    if (rc == ECONF_SUCCESS) { json a = json::array(); for (size_t i = 0; i < n; i++) a.push_back(J(g[i])); r["v"] = a; r["terminated"] = (g && g[n] == nullptr); LibCall L; econf_freeArray(g); }
  } else if (o == "get") {
    econf_file *kf = slot(t, op, "k"); STR(group); STR(key); std::string ty = op.value("type", "String");
    bool def = op.contains("def");
    econf_err rc = ECONF_ERROR;
#define GETNUM(NAME, CT, DEFEXPR) \
    if (ty == #NAME) { CT v = (CT)0x5a; if (def && DEFEXPR == v) v = (CT)0; const CT v0 = v; \
      { LibCall L; rc = def ? econf_get##NAME##ValueDef(kf, group.c(), key.c(), &v, DEFEXPR) : econf_get##NAME##Value(kf, group.c(), key.c(), &v); } \
      r["rc"] = (int)rc; if (rc == ECONF_SUCCESS || (def && rc == ECONF_NOKEY)) r["v"] = num_json(v); \
      else if (memcmp(&v, &v0, sizeof v) != 0) { r["out_changed"] = true; if (def) { CT dv = DEFEXPR; if (memcmp(&v, &dv, sizeof v) == 0) r["out_is_default"] = true; } } }
    GETNUM(Int, int32_t, (int32_t)I(op, "def"))
    GETNUM(Int64, int64_t, (int64_t)I(op, "def"))
    GETNUM(UInt, uint32_t, (uint32_t)op["def"].get<uint64_t>())
    GETNUM(UInt64, uint64_t, op["def"].get<uint64_t>())
    GETNUM(Float, float, (float)op["def"].get<double>())
    GETNUM(Double, double, op["def"].get<double>())
    GETNUM(Bool, bool, op["def"].get<bool>())
    if (ty == "String") {
      char *v = (char *)(uintptr_t)-1; OptStr d = S(op, "def");
      { LibCall L; rc = def ? econf_getStringValueDef(kf, group.c(), key.c(), &v, (char *)d.c()) : econf_getStringValue(kf, group.c(), key.c(), &v); }
      r["rc"] = (int)rc;
      if (rc == ECONF_SUCCESS || (def && rc == ECONF_NOKEY)) {
        if (v == (char *)(uintptr_t)-1) r["v_untouched"] = true;
        else { r["v"] = J(v); LibCall L; free(v); }
      }
    }
  } else if (o == "getExt") {
    econf_file *kf = slot(t, op, "k"); STR(group); STR(key);
    if (!kf) { econf_ext_value *ev = nullptr; econf_err rc; { LibCall L; rc = econf_getExtValue(nullptr, group.c(), key.c(), &ev); } r["rc"] = (int)rc; }
    else r = dump_ext(kf, group.c(), key.c());
  } else if (o == "set") {
    econf_file *kf = slot(t, op, "k"); STR(group); STR(key); std::string ty = op.value("type", "String");
    econf_err rc = ECONF_ERROR; { LibCall L;
      if (ty == "Int") rc = econf_setIntValue(kf, group.c(), key.c(), (int32_t)I(op, "v"));
      else if (ty == "Int64") rc = econf_setInt64Value(kf, group.c(), key.c(), (int64_t)I(op, "v"));
      else if (ty == "UInt") rc = econf_setUIntValue(kf, group.c(), key.c(), (uint32_t)op["v"].get<uint64_t>());
      else if (ty == "UInt64") rc = econf_setUInt64Value(kf, group.c(), key.c(), op["v"].get<uint64_t>());
      else if (ty == "Float") rc = econf_setFloatValue(kf, group.c(), key.c(), (float)op["v"].get<double>());
      else if (ty == "Double") rc = econf_setDoubleValue(kf, group.c(), key.c(), op["v"].get<double>());
      else if (ty == "Bool") { OptStr v = S(op, "v"); rc = econf_setBoolValue(kf, group.c(), key.c(), v.c()); }
      else { OptStr v = S(op, "v"); rc = econf_setStringValue(kf, group.c(), key.c(), v.c()); } }
    r["rc"] = (int)rc;
  } else if (o == "getPath") {
    econf_file *kf = slot(t, op, "k"); if (kf) { char *p; { LibCall L; p = econf_getPath(kf); } r["v"] = J(p); LibCall L; free(p); }
  } else if (o == "tags") {
    econf_file *kf = slot(t, op, "k"); LibCall L; r["delim"] = (int)(unsigned char)econf_delimiter_tag(kf); r["comment"] = (int)(unsigned char)econf_comment_tag(kf);
  } else if (o == "setTags") {
    econf_file *kf = slot(t, op, "k"); LibCall L;
    if (op.contains("delim")) econf_set_delimiter_tag(kf, (char)I(op, "delim"));
    if (op.contains("comment")) econf_set_comment_tag(kf, (char)I(op, "comment"));
  } else if (o == "dump") {
    r = dump_obj(slot(t, op, "k"), op.value("ext", true), op.value("order", 0));
  } else if (o == "exercise") {
    r = exercise_obj(slot(t, op, "k"));
  } else if (o == "dumpHistory") {
    auto h = t->hslots.find((int)I(op, "h", -1)); json a = json::array();
    if (h != t->hslots.end()) for (size_t i = 0; i < h->second.second; i++) a.push_back(dump_obj(h->second.first[i], op.value("ext", true)));
    r["members"] = a;
  } else if (o == "mergeHistory") {
    // oracle helper of C12: fold the history left to right with the library's own merge,
    // skipping a member when a later member has the same file name
    auto h = t->hslots.find((int)I(op, "h", -1));
    if (h == t->hslots.end() || h->second.second == 0) { r["rc"] = -1; }
    else {
      size_t n = h->second.second; econf_file **m = h->second.first;
      std::vector<std::string> base(n);
      for (size_t i = 0; i < n; i++) { char *p; { LibCall L; p = econf_getPath(m[i]); } std::string sp = p ? p : ""; { LibCall L; free(p); } size_t sl = sp.rfind('/'); base[i] = sl == std::string::npos ? sp : sp.substr(sl + 1); }
      econf_file *acc = nullptr; bool acc_owned = false; int rc = 0; json skipped = json::array();
      for (size_t i = 0; i < n && rc == 0; i++) {
        bool skip = false; for (size_t j = i + 1; j < n; j++) if (base[j] == base[i]) skip = true;
        if (i == 0 && op.value("first_is_main", false)) skip = false;   // the main file is not a drop-in: never masked (C01)
        if (skip) { skipped.push_back(i); continue; }
        if (!acc) { acc = m[i]; continue; }
        econf_file *nm = nullptr; { LibCall L; rc = econf_mergeFiles(&nm, acc, m[i]); }
        if (acc_owned) { LibCall L; econf_freeFile(acc); }
        acc = nm; acc_owned = true;
      }
      r["rc"] = rc; r["skipped"] = skipped;
      if (acc && !acc_owned) { // a single member: copy it by merging with itself so that the slot owns its object
        econf_file *nm = nullptr; { LibCall L; rc = econf_mergeFiles(&nm, acc, acc); } acc = nm; r["rc"] = rc;
      }
      put_slot(t, oi, acc);
    }
  } else if (o == "historyMember") {
    // borrow one member of a history as an ordinary object slot (and give it back before the history is freed)
    auto h = t->hslots.find((int)I(op, "h", -1));
    if (op.contains("release")) { t->slots.erase((int)I(op, "release")); }
    else if (h != t->hslots.end() && h->second.second > 0) { size_t i = (size_t)I(op, "i") % h->second.second; put_slot(t, oi, h->second.first[i]); r["rc"] = 0; r["i"] = i; }
    else r["rc"] = 1;
  } else if (o == "free") {
    auto s = t->slots.find((int)I(op, "k", -1));
    econf_file *kf = s == t->slots.end() ? nullptr : s->second; if (s != t->slots.end()) t->slots.erase(s);
    econf_file *ret; { LibCall L; ret = econf_freeFile(kf); } r["ret_null"] = ret == nullptr;
  } else if (o == "freeHistory") {
    auto h = t->hslots.find((int)I(op, "h", -1));
    if (h != t->hslots.end()) { LibCall L; for (size_t i = 0; i < h->second.second; i++) econf_freeFile(h->second.first[i]); free(h->second.first); t->hslots.erase(h); }
  } else if (o == "freeNull") {
    LibCall L; r["file_null"] = econf_freeFile(nullptr) == nullptr; r["array_null"] = econf_freeArray(nullptr) == nullptr; econf_freeExtValue(nullptr);
  } else if (o == "setConfDirs") {
    std::vector<std::string> v; for (auto &d : op["dirs"]) v.push_back(u2b(d.get<std::string>()));
    std::vector<const char *> p; for (auto &s : v) p.push_back(s.c_str()); p.push_back(nullptr);
    econf_err rc; { LibCall L; t->alloc_cls = 1;
#pragma GCC diagnostic push
#pragma GCC diagnostic ignored "-Wdeprecated-declarations"
      rc = econf_set_conf_dirs(p.data());
#pragma GCC diagnostic pop
      t->alloc_cls = 0; }
    r["rc"] = (int)rc;
  } else if (o == "security") {
    LibCall L;
#pragma GCC diagnostic push
#pragma GCC diagnostic ignored "-Wdeprecated-declarations"
    std::string what = op.value("what", "reset");
    if (what == "owner") econf_requireOwner((uid_t)I(op, "v"));
    else if (what == "group") econf_requireGroup((gid_t)I(op, "v"));
    else if (what == "symlinks") econf_followSymlinks(op.value("v", true));
    else if (what == "perms") econf_requirePermissions((mode_t)I(op, "file"), (mode_t)I(op, "dir"));
    else econf_reset_security_settings();
#pragma GCC diagnostic pop
  } else if (o == "errString") {
    const char *s; { LibCall L; s = econf_errString((econf_err)I(op, "code")); } r["v"] = J(s);
  } else if (o == "errLocation") {
    char *fn = nullptr; uint64_t ln = 0; { LibCall L; econf_errLocation(&fn, &ln); } r["file"] = J(fn); r["line"] = ln; LibCall L; free(fn);
  } else if (o == "fd_budget") {
    // resource fault: the process may open only a few more descriptors than it holds now
    struct rlimit rl; getrlimit(RLIMIT_NOFILE, &rl);
    if (!g_nofile_saved) { g_nofile_soft = rl.rlim_cur; g_nofile_saved = true; }
    rl.rlim_cur = (rlim_t)(count_fds() + I(op, "extra", 8));
    if (rl.rlim_cur > rl.rlim_max) rl.rlim_cur = rl.rlim_max;
    r["rc"] = setrlimit(RLIMIT_NOFILE, &rl) ? errno : 0; r["limit"] = (long long)rl.rlim_cur; R.fired["fd_budget"]++;
  } else if (o == "rmcwd") {
    // environment: the working directory of the process is removed under it (relative names that start with ".." still resolve)
    r["rc"] = (!g_cwd.empty() && rmdir(g_cwd.c_str()) == 0) ? 0 : errno; R.fired["env_rmcwd"]++;
  } else if (o == "chdir") {
    // environment: the application changes its working directory between two calls
    std::string d = SS(op, "path"); mkdirs(d);
    if (chdir(d.c_str()) == 0) { g_cwd = d; r["rc"] = 0; R.fired["env_chdir"]++; } else r["rc"] = errno;
  } else if (o == "env_unlink") { r["rc"] = unlink(SS(op, "path").c_str()) ? errno : 0; R.fired["env_unlink"]++;
  } else if (o == "env_write") { r["rc"] = write_file(SS(op, "path"), SS(op, "c")) ? 0 : -1; R.fired["env_write"]++;
  } else if (o == "env_entry") { r = tree_entry(op["e"]);
  } else if (o == "env_read") { std::string c; if (read_whole(SS(op, "path"), c)) r["bytes"] = J(c); else r["rc"] = errno;
  } else if (o == "env_corrupt") {
    // storage faults on a stored file (F9); all positions are explicit in the plan
    std::string p = SS(op, "path"), c; std::string how = op.value("how", "truncate");
    if (read_whole(p, c)) {
      size_t a = (size_t)I(op, "a"), b = (size_t)I(op, "b");
      if (how == "truncate") c.resize(std::min(a, c.size()));
      else if (how == "bitflip") { if (!c.empty()) c[a % c.size()] ^= (char)(1u << (b % 8)); }
      else if (how == "zero") { for (size_t i = a; i < std::min(c.size(), a + b); i++) c[i] = 0; }
      else if (how == "dup") { if (a < c.size()) { std::string seg = c.substr(a, b); c.insert(std::min(c.size(), a + b), seg); } }
      else if (how == "swap") { if (a + 2 * b <= c.size() && b) { std::string s1 = c.substr(a, b), s2 = c.substr(a + b, b); c.replace(a, b, s2); c.replace(a + b, b, s1); } }
      else if (how == "splice") { std::string gbg = SS(op, "c"); c.insert(std::min(a, c.size()), gbg); }
      else if (how == "crlf") { std::string d; for (char ch : c) { if (ch == '\n') d += '\r'; d += ch; } c = d; }
      else if (how == "nonl") { while (!c.empty() && c.back() == '\n') c.pop_back(); }
      write_file(p, c); r["len"] = c.size(); R.fired[std::string("corrupt_") + how]++;
    } else r["rc"] = errno;
  } else if (o == "tool") {
    r = spawn_tool(op);
  } else {
    r["unknown_op"] = o;
  }
  t->faults = nullptr; t_expected_cb = nullptr;
  if (use_cb) r["cb_calls"] = cb.calls;
  if (!faults.empty()) { json fj = json::array(); for (auto &f : faults) fj.push_back(f.fired); r["faults_fired"] = fj; }
  return r;
}

struct TaskRun { TaskCtx ctx; const json *ops; json results; };

static void run_task_ops(TaskRun *tr) {
  tc = &tr->ctx;
  tr->results = json::array();
  int i = 0;
  for (auto &op : *tr->ops) {
    tc->op = i++;
    uint64_t s0 = sim_steps;
    json r = exec_op(tc, op);
    r["steps"] = sim_steps - s0;
    tr->results.push_back(std::move(r));
  }
  tc->op = i;
  // release whatever the plan did not release itself (reported, so that plans stay honest)
  int auto_freed = 0;
  for (auto &s : tc->slots) { lib_enter(); econf_freeFile(s.second); lib_leave(); auto_freed++; }
  tc->slots.clear();
  for (auto &h : tc->hslots) { lib_enter(); for (size_t k = 0; k < h.second.second; k++) econf_freeFile(h.second.first[k]); free(h.second.first); lib_leave(); auto_freed++; }
  tc->hslots.clear();
  tr->results.push_back(json{{"auto_freed", auto_freed}});
  tc = nullptr;
}
static void *task_main(void *a) {
  TaskRun *tr = (TaskRun *)a;
  tsan_ignore_begin();
  sched_task_enter(tr->ctx.id);
  run_task_ops(tr);
  sched_task_exit(tr->ctx.id);
  tsan_ignore_end();
  return nullptr;
}

static long long g_plan_no = 0;
static long long g_zombie_bytes = 0;
static std::string g_current_id;

extern "C" void sim_hang(void) {
  // step budget exceeded: a call does not terminate (or is absurdly slow)
  char buf[512]; int n = snprintf(buf, sizeof buf, "\n{\"id\":\"%s\",\"fatal\":\"step_budget\",\"steps\":%" PRIu64 ",\"op\":%d}\n", g_current_id.c_str(), (uint64_t)sim_steps, tc ? tc->op : -1);
  if (write(1, buf, (size_t)n) < 0) {}
  _exit(78);
}

static void normalise_library_state() {
  // every run starts from the same process-wide library state
  umask(022);
  TaskCtx boot; tc = &boot; boot.op = -1;
#pragma GCC diagnostic push
#pragma GCC diagnostic ignored "-Wdeprecated-declarations"
  lib_enter(); econf_reset_security_settings();
  const char *none[] = {nullptr}; tc->alloc_cls = 1; econf_set_conf_dirs(none); tc->alloc_cls = 0; lib_leave();
#pragma GCC diagnostic pop
  std::string prime = g_root + "/.prime";
  write_file(prime, "prime=1\nsecond=2\n");
  econf_file *kf = nullptr;
  lib_enter(); econf_readFile(&kf, prime.c_str(), "=", "#"); econf_freeFile(kf); lib_leave();
  unlink(prime.c_str());
  tc = nullptr;
}

static json run_plan(const json &plan) {
  json out = json::object();
  g_current_id = plan.value("id", std::to_string(g_plan_no));
  out["id"] = g_current_id;
  const json cfg = plan.value("cfg", json::object());
  // ---- reset world
  R.ev.clear(); R.seq = 0; R.fired.clear(); R.anomalies.clear(); R.files.clear();
  R.n_alloc = R.n_free = R.n_unknown_free = R.n_fopen = R.n_fclose = 0;
  for (auto it = R.live.begin(); it != R.live.end();) { if (it->second.cls == 1) ++it; else it = R.live.erase(it); }
  R.shuffle = cfg.value("shuffle", false); R.dtype_unknown = cfg.value("dtype_unknown", false);
  R.short_reads = cfg.value("short_reads", 0); R.fill = -1; R.passthrough = cfg.value("passthrough", false);
  R.ledger_on = cfg.value("ledger", true);
  R.io.s = cfg.value("io_seed", (uint64_t)1);
  R.errno_noise = (cfg.value("errno_noise", false) && !R.passthrough) ? (cfg.value("io_seed", (uint64_t)1) ^ 0xE77E77E77ull) | 1 : 0; R.n_errno_noise = 0;
  {
    std::string loc = cfg.value("locale", std::string("C"));
    if (loc == "xx_XX") {
      // a private locale (sim/locale, found through LOCPATH) whose only category is LC_NUMERIC with ',' as decimal point
      setlocale(LC_ALL, "C");
      if (!setlocale(LC_NUMERIC, "xx_XX")) R.fired["locale_unavailable"]++; else R.fired["comma_decimal_locale"]++;
    } else setlocale(LC_ALL, loc.c_str());
  }
  clear_sandbox();
  sim_steps = 0; sim_step_budget = ~0ull;
  normalise_library_state();
  for (auto it = R.live.begin(); it != R.live.end();) { if (it->second.cls == 1) ++it; else it = R.live.erase(it); }
  R.ev.clear(); R.seq = 0; R.n_alloc = R.n_free = R.n_unknown_free = R.n_fopen = R.n_fclose = 0; R.files.clear();
  R.fill = R.passthrough ? -1 : cfg.value("fill", -1);
  // ---- materialise the tree
  json terr = json::array();
  if (plan.contains("tree")) for (auto &e : plan["tree"]) { json r = tree_entry(e); if (!r.empty()) { r["p"] = e.value("p", ""); terr.push_back(r); } }
  if (!terr.empty()) out["tree_errors"] = terr;
  g_fd0_closed = false;
  g_cwd.clear();
  if (cfg.contains("cwd")) { g_cwd = subst_in(cfg["cwd"].get<std::string>()); mkdirs(g_cwd); if (chdir(g_cwd.c_str())) g_cwd.clear(); }
  sim_steps = 0;
  sim_step_budget = cfg.value("step_budget", (uint64_t)400000000ull);
  // ---- tasks
  std::vector<TaskRun> trs;
  if (plan.contains("tasks")) { for (auto &t : plan["tasks"]) { TaskRun tr; tr.ops = &t; trs.push_back(std::move(tr)); } }
  else if (plan.contains("ops")) { TaskRun tr; tr.ops = &plan["ops"]; trs.push_back(std::move(tr)); }
  for (size_t i = 0; i < trs.size(); i++) trs[i].ctx.id = (int)i;
  if (cfg.value("fd0_free", false) && !R.passthrough) { close(0); g_fd0_closed = true; R.fired["descriptor_0_free"]++; }
  TaskRun pro, epi; bool has_pro = plan.contains("prologue"), has_epi = plan.contains("epilogue");
  if (has_pro) { pro.ops = &plan["prologue"]; pro.ctx.id = -1; run_task_ops(&pro); out["prologue"] = pro.results; }
  bool multi = plan.contains("sched") && trs.size() >= 1 && plan["sched"].value("threads", trs.size() > 1);
  long stack_kb = cfg.value("stack_kb", 0L);
  if (!multi && stack_kb > 0) {
    // resource fault: the caller runs on a thread with a small stack (as many applications do); a library
    // whose stack use grows with the input overflows it
    for (auto &tr : trs) {
      pthread_attr_t at; pthread_attr_init(&at);
      pthread_attr_setstacksize(&at, (size_t)stack_kb * 1024);
      pthread_t th;
      if (pthread_create(&th, &at, [](void *a) -> void * { tsan_ignore_begin(); run_task_ops((TaskRun *)a); tsan_ignore_end(); return nullptr; }, &tr) == 0) pthread_join(th, nullptr);
      else run_task_ops(&tr);
      pthread_attr_destroy(&at);
    }
    R.fired["small_stack_thread"]++;
  } else if (!multi) {
    for (auto &tr : trs) run_task_ops(&tr);
  } else {
    const json &sc = plan["sched"];
    sched_cfg c; memset(&c, 0, sizeof c);
    std::string mode = sc.value("mode", "random");
    c.mode = mode == "replay" ? SCHED_REPLAY : mode == "pct" ? SCHED_PCT : mode == "api" ? SCHED_API : mode == "burst" ? SCHED_BURST : SCHED_RANDOM;
    c.seed = sc.value("seed", (uint64_t)1); c.p_num = sc.value("p_num", 1u); c.p_den = sc.value("p_den", 16u); if (!c.p_den) c.p_den = 1;
    c.pct_d = sc.value("d", 2); c.pct_len = sc.value("len", (uint64_t)2000);
    std::vector<uint64_t> sy; std::vector<int> st;
    if (sc.contains("transfers")) for (auto &x : sc["transfers"]) { sy.push_back(x[0].get<uint64_t>()); st.push_back(x[1].get<int>()); }
    c.sw_y = sy.data(); c.sw_t = st.data(); c.nsw = sy.size();
    sched_begin((int)trs.size(), &c);
    std::vector<pthread_t> th(trs.size());
    for (size_t i = 0; i < trs.size(); i++) pthread_create(&th[i], nullptr, task_main, &trs[i]);
    sched_run();
    for (size_t i = 0; i < trs.size(); i++) pthread_join(th[i], nullptr);
    sched_stats ss; uint64_t *ty; int *tt; size_t nt;
    sched_end(&ss, &ty, &tt, &nt);
    json tj = json::array(); for (size_t i = 0; i < nt; i++) tj.push_back(json::array({ty[i], tt[i]}));
    char sig[32]; snprintf(sig, sizeof sig, "%016" PRIx64, ss.sig);
    out["sched"] = json{{"yields", ss.yields}, {"switches", ss.switches}, {"sig", sig}, {"in_edge", ss.switches_in_edge}, {"in_wrap", ss.switches_in_wrap}, {"transfers", tj}};
  }
  if (has_epi) { epi.ops = &plan["epilogue"]; epi.ctx.id = -2; run_task_ops(&epi); out["epilogue"] = epi.results; }
  // leave the process-wide library state as every run finds it: whatever this run's history of global
  // setters left behind is released HERE, inside the run that caused it (so that a defect in that
  // hand-over is attributed to, and replays with, this plan and not the next one of the worker)
  {
    TaskCtx fin; tc = &fin; fin.op = -3;
#pragma GCC diagnostic push
#pragma GCC diagnostic ignored "-Wdeprecated-declarations"
    lib_enter(); econf_reset_security_settings();
    const char *none[] = {nullptr}; tc->alloc_cls = 1; econf_set_conf_dirs(none); econf_set_conf_dirs(none); tc->alloc_cls = 0; lib_leave();
#pragma GCC diagnostic pop
    tc = nullptr;
  }
  sim_step_budget = ~0ull;
  json tres = json::array(); for (auto &tr : trs) tres.push_back(tr.results);
  if (plan.contains("tasks")) out["tasks"] = tres; else if (!tres.empty()) out["ops"] = tres[0];
  out["steps"] = (uint64_t)sim_steps;
  // ---- events
  if (cfg.value("events", true)) {
    json ev = json::array();
    for (auto &e : R.ev) { json x = json::array({e.task, e.op, e.what, J(e.path), e.res, e.err}); ev.push_back(x); }
    out["events"] = ev;
  }
  out["n_events"] = R.ev.size();
  if (R.n_errno_noise) R.fired["errno_noise"] = R.n_errno_noise;
  { mode_t um = umask(022); umask(um); out["umask_after"] = (int)um; }      // process-wide state the library has no business changing
  json fj = json::object(); for (auto &f : R.fired) fj[f.first] = f.second; out["fired"] = fj;
  // ---- ledger conservation
  if (R.ledger_on) {
    json leaks = json::array(); long long leaked_bytes = 0;
    std::vector<std::pair<uint64_t, std::pair<void *, LedgerEnt>>> l;
    std::vector<std::string> behind;
    for (auto &kv : R.live) if (kv.second.cls == 0) {
      if (__sanitizer_get_ownership && !__sanitizer_get_ownership(kv.first)) { behind.push_back(std::string(kv.second.fn) + "/" + std::to_string(kv.second.size)); continue; }   // released behind the wrappers' back
      l.push_back({kv.second.serial, {kv.first, kv.second}});
    }
    std::sort(l.begin(), l.end(), [](auto &a, auto &b) { return a.first < b.first; });
    for (auto &x : l) {
      auto &e = x.second.second; leaked_bytes += (long long)e.size;
      char ra[32]; snprintf(ra, sizeof ra, "0x%" PRIxPTR, (uintptr_t)e.ra);
      if (leaks.size() < 40) leaks.push_back(json{{"size", e.size}, {"op", e.op}, {"task", e.task}, {"fn", e.fn}, {"ra", ra}});
      // a leaked block is reported, never freed by the harness: the library may still hold a pointer to it
      // (a process-wide cache); the executor retires when too much has piled up
      g_zombie_bytes += (long long)e.size;
    }
    std::vector<std::string> open_files; for (auto &f : R.files) open_files.push_back(b2u(subst_out(f.second.second)));
    std::sort(open_files.begin(), open_files.end());
    out["ledger"] = json{{"allocs", R.n_alloc}, {"frees", R.n_free}, {"unknown_frees", R.n_unknown_free}, {"leaks", leaks}, {"leak_count", l.size()}, {"leak_bytes", leaked_bytes},
                         {"fopen", R.n_fopen}, {"fclose", R.n_fclose}, {"open_files", open_files}};
    if (!behind.empty()) { std::sort(behind.begin(), behind.end()); out["ledger"]["released_behind_wrappers"] = behind; }
    for (auto &f : R.files) __real_fclose(f.first);
    R.files.clear();
  }
  if (g_fd0_closed) { if (fcntl(0, F_GETFD) == -1) { int nul = open("/dev/null", O_RDONLY); if (nul > 0) { dup2(nul, 0); close(nul); } } g_fd0_closed = false; }
  if (g_nofile_saved) { struct rlimit rl; getrlimit(RLIMIT_NOFILE, &rl); rl.rlim_cur = g_nofile_soft; setrlimit(RLIMIT_NOFILE, &rl); g_nofile_saved = false; }
  if (!g_cwd.empty()) { if (chdir("/")) {} g_cwd.clear(); }
  if (!cfg.value("keep_tree", false)) clear_sandbox();
  g_plan_no++;
  return out;
}

static json coverage_report(bool with_pcs) {
  uint32_t hit = 0; for (uint32_t g = 1; g <= sim_nguards; g++) if (sim_cov[g]) hit++;
  json r = json{{"edges_total", sim_nguards}, {"edges_covered", hit}};
  std::string bits; bits.reserve(sim_nguards / 4 + 1);
  for (uint32_t g = 1; g <= sim_nguards; g += 4) { int v = 0; for (int k = 0; k < 4; k++) if (g + k <= sim_nguards && sim_cov[g + k]) v |= 1 << k; bits += "0123456789abcdef"[v]; }
  r["bitmap"] = bits;
  if (with_pcs && sim_pcs_beg) {
    json pcs = json::array(); uint32_t g = 1;
    for (const uintptr_t *p = sim_pcs_beg; p < sim_pcs_end && g <= sim_nguards; p += 2, g++) if (!sim_cov[g]) { char b[32]; snprintf(b, sizeof b, "0x%" PRIxPTR, p[0]); pcs.push_back(b); }
    r["uncovered_pcs"] = pcs;
  }
  return r;
}

int main(int argc, char **argv) {
  const char *root = nullptr; const char *file = nullptr; bool cov_pcs = false;
  for (int i = 1; i < argc; i++) {
    if (!strcmp(argv[i], "--root") && i + 1 < argc) root = argv[++i];
    else if (!strcmp(argv[i], "--plan") && i + 1 < argc) file = argv[++i];
    else if (!strcmp(argv[i], "--cov-pcs")) cov_pcs = true;
  }
  if (!root) { fprintf(stderr, "usage: lesim --root /dev/shm/lesim-XXXX [--plan file]\n"); return 2; }
  g_root = root;
  tsan_ignore_begin();
  mkdirs(g_root);
  signal(SIGPIPE, SIG_IGN);
  // the plans arrive on a private descriptor: descriptor 0 itself belongs to the simulated process (a daemon may run
  // with its standard descriptors closed)
  int plan_fd = fcntl(0, F_DUPFD_CLOEXEC, 200);
  FILE *in = plan_fd >= 0 ? fdopen(plan_fd, "r") : stdin;
  if (plan_fd >= 0) { int nul = open("/dev/null", O_RDONLY); if (nul >= 0) { dup2(nul, 0); if (nul != 0) close(nul); } }
  if (file && !(in = fopen(file, "r"))) { perror(file); return 2; }
  char *line = nullptr; size_t cap = 0; ssize_t n;
  while ((n = getline(&line, &cap, in)) > 0) {
    if (n <= 1) continue;
    json plan;
    try { plan = json::parse(line, line + n); } catch (std::exception &e) { printf("{\"fatal\":\"bad plan json\"}\n"); fflush(stdout); continue; }
    if (plan.contains("cmd")) {
      std::string c = plan["cmd"].get<std::string>();
      if (c == "coverage") { printf("%s\n", coverage_report(cov_pcs || plan.value("pcs", false)).dump().c_str()); fflush(stdout); }
      else if (c == "pctable") {
        json pcs = json::array();
        if (sim_pcs_beg) for (const uintptr_t *q = sim_pcs_beg; q < sim_pcs_end; q += 2) { char b[32]; snprintf(b, sizeof b, "0x%" PRIxPTR, q[0]); pcs.push_back(b); }
        printf("%s\n", json{{"pcs", pcs}}.dump().c_str()); fflush(stdout);
      }
      else if (c == "quit") break;
      continue;
    }
    // announce first: if the library crashes the driver knows which plan was in flight
    printf("{\"begin\":\"%s\"}\n", plan.value("id", std::to_string(g_plan_no)).c_str()); fflush(stdout);
    json out;
    try { out = run_plan(plan); } catch (std::exception &e) { out = json{{"id", plan.value("id", "")}, {"fatal", std::string("executor exception: ") + e.what()}}; }
    bool retire = g_zombie_bytes > (256LL << 20);
    if (retire) out["recycle"] = true;
    std::string s = out.dump(-1, ' ', true, json::error_handler_t::replace);   // never let a stray byte take the executor down
    fwrite(s.data(), 1, s.size(), stdout); fputc('\n', stdout); fflush(stdout);
    if (retire) break;
  }
  free(line);
  clear_sandbox(); rmdir(g_root.c_str());
  tsan_ignore_end();
  return 0;
}
